"""Regenerate MANIFEST.json from the tables below (kept next to plans.py)."""
import json
import os

HERE = os.path.dirname(os.path.abspath(__file__))

BASELINE = ("cd /repo && /venv/bin/python -m pytest -ra -q -p no:cacheprovider --timeout=900 "
            "--continue-on-collection-errors")

CHECKS = {
    'C01': dict(
        category='proof',
        text="Deductive: every primitive rule of kernel/thm.py that is under contract is proved (all inputs, all "
             "paths) to refine its textbook rule schema including side conditions (occurs_var = free occurrence "
             "of Var AND SVar; type agreement in combination/forall_elim; premise equality is alpha-equivalence), "
             "and check_thm_type/checked_get_type are proved to implement the typing judgement. Soundness of the "
             "schemas themselves is a cited assumption.",
        note="Trusted: pyvc VC generator, z3; schemas of spec/thm.py are the sound HOL rules (A1); signature "
             "conformance of constants/types (A1b). Thm.substitution is not under contract (bounded stand-in c01_substitution).",
        technique="contract-based deductive verification (own ast->z3 VC generator, induction via contracts, "
                  "z3 5.1), native replay of counterexamples",
        design='4 C01'),
    'C03': dict(
        category='proof',
        text="Deductive: Term.__eq__/Type.__eq__ are proved to be structural equality of the nameless datatype "
             "(= alpha-equivalence); incr_boundvars, subst_bound, beta_conv, abstract_over, subst_type, "
             "Type.subst, get_type, checked_get_type, is_open, strip_comb/args/head, is_comb are proved equal to "
             "their de Bruijn spec functions for all terms (structural induction, memo tables included).",
        note="Trusted: pyvc, z3; ID-INJ (distinct live objects have distinct _id) assumed for identity shortcuts "
             "and memo tables. The hash / order clauses (equal terms hash equally also after in-place operations; "
             "fast_compare is a total order agreeing with ==) are covered by the bounded stand-in c03_hash only.",
        technique="contract-based deductive verification (own ast->z3 VC generator, structural induction, "
                  "z3 recursive functions), native cross-check",
        design='4 C03'),
}

CHECKS['C05'] = dict(
    category='proof',
    text="Deductive: nat_eval / int_eval / real_eval are proved to compute the standard denotation (truncated "
         "subtraction at nat, x/0 = 0, exact rationals) of every ground arithmetic term, numerals included "
         "(is_number/dest_number/dest_binary), and the level-0 macros nat_eval, int_eval, real_eval, "
         "int_const_ineq, real_const_ineq, real_const_eq, real_compare are proved to return only true "
         "(in)equations AND only for goals at their own numeric type (shape/type test).",
    note="Trusted: pyvc, z3; signature conformance of arithmetic constants (A1b); products of two symbolic "
         "numbers uninterpreted. real_norm_macro and the float-based ConstInequalityMacro are not covered.",
    technique="contract-based deductive verification (own ast->z3 VC generator, structural induction against "
              "a denotation spec, lemmas), native replay",
    design='4 C05')

CHECKS['C02'] = dict(
    category='proof',
    text="Deductive (all inputs): ItemID.can_depend_on is proved to admit exactly earlier siblings of an ancestor-"
         "or-self of the citing step, and lemmas show such a step lies strictly earlier in the checker's depth-first "
         "order, never inside a closed block, never the step itself; Thm.can_prove = same conclusion, hypotheses "
         "subset. The checker-level statement (check_proof, _check_proof_item, checked_extend) is covered by a "
         "bounded stand-in only: exhaustive small proof objects (incl. all 1- and 2-line objects of circular citations "
         "with blocks and negative / mismatched identifiers) and seeded mutations run through the real checker "
         "with a truth-table oracle - labelled bounded, not counted as proved.",
    note="Trusted: pyvc, z3. _check_proof_item itself is not under contract (needs a heap model of mutable "
         "Proof/ProofItem objects); its behaviour is explored, not proved.",
    technique="contract-based deductive verification of the dependency rule + run-time contract on the real "
              "checker over enumerated proof objects (bounded stand-in)",
    design='4 C02')

CHECKS['C13'] = dict(
    category='proof',
    text="Deductive (all inputs): incr_id_after / decr_id / incr_id / last are proved equal to the renumbering "
         "spec; renumbering is injective and length preserving; (bounded: sequence lengths <= 4) it preserves the "
         "dependency relation between surviving lines. The whole-state editing invariant (re-check = stated goal, "
         "numbering, citations, no_gaps when finished, export/re-import, copy isolation) is covered by a bounded "
         "stand-in only: generated goals and recorded library steps with random perturbations, every step on a copy "
         "first, invariant checked after every completed step - labelled bounded.",
    note="Trusted: pyvc, z3. Three lemmas are bounded (enumerated lengths), reported separately. ProofState-level "
         "clauses are explored, not proved (heap of aliased Proof/ProofItem objects). Four findings repaired "
         "(revert_intro, exists_elim, intros with several variables, apply_tactic up to eta) and later ones "
         "(DESIGN 6). Known finding recorded: a step argument with a type instantiation is exported without it.",
    technique="contract-based deductive verification of the identifier arithmetic (ast->z3, sequence theory), "
              "bounded enumeration for three lemmas, run-time contract on ProofState over generated edit sequences",
    design='4 C13')

CHECKS['C20'] = dict(
    category='proof',
    text="Deductive (all expressions, all states): every override of Expr.subst (Var, ArrayElt, Field, Const, Op, "
         "Fun, ITE) is proved against one virtual contract - evaluating the substituted expression equals "
         "evaluating the original in the state updated by the assignment (the lemma that makes the assignment "
         "rule of compute_wp right). Program-level soundness of compute_wp/get_vcs against execution and the "
         "print/parse agreement of conditions are covered by a bounded stand-in only (random annotated programs, "
         "own interpreter) - labelled bounded.",
    note="Trusted: pyvc, z3; expression semantics of spec/imp.py. Forall expressions excluded. Findings "
         "repaired: Op.__str__ / cond_parser parenthesisation and precedence. HOL side (eval_Sem, vcg) not covered.",
    technique="contract-based deductive verification with behavioural subtyping (virtual contract on Expr.subst, "
              "ast->z3, induction), bounded run-time contract on compute_wp",
    design='4 C20')

CHECKS['C15'] = dict(
    category='proof',
    text="Deductive (all CNFs, all assignments): is_solution is proved to decide 'every clause has a literal made "
         "true by the assignment'; resolution is proved sound on its pivot (and to remove it). The CDCL loop "
         "(termination, verdict, model, resolution trace) is covered by a bounded stand-in only: exhaustive small "
         "clause sets and random larger ones against exhaustive search and an independent trace checker.",
    note="Trusted: pyvc, z3. unit_propagate/analyze_conflict/backtrack (closures over shared mutable state) are "
         "explored, not proved; Tseitin encoding not covered.",
    technique="contract-based deductive verification of the pure functions (loop invariants over index-based "
              "specs, set-level resolution soundness) + bounded run-time contract on solve_cnf",
    design='4 C15')

CHECKS['C16'] = dict(
    category='exploration',
    text="Bounded stand-in (not a proof): solve_matrix (Omega test) and Simplex are run on all 2x2 systems with small "
         "coefficients and on random systems up to 5 variables / 8 constraints; 'UNSAT' is compared with z3 "
         "(LIA / LRA), every 'SAT' witness is evaluated against every constraint. No function of omega.py / "
         "simplex.py is under a deductive contract yet.",
    note="Oracle: z3 and own evaluation. Calls that raise count as 'no answer'. Proof construction of "
         "OmegaHOL/SimplexHOLWrapper is not checked beyond the verdict.",
    technique="run-time contract on the real decision procedures over enumerated and random systems (bounded "
              "stand-in for the deductive technique)",
    design='4 C16')

def _bounded(pid, text, note, design):
    CHECKS[pid] = dict(category='exploration', text=text, note=note, design=design,
                       technique="run-time contract on the real functions over enumerated / seeded inputs with an "
                                 "independent oracle (bounded stand-in for the deductive technique; nothing proved)")


_bounded('C07',
         "Bounded stand-in (not a proof): generated well-typed terms over the theory real are printed (ASCII and "
         "Unicode, two line widths, cold and after other terms) and parsed back; types, sequents, instantiations, type "
         "instantiations and exported proof steps (15 argument signatures, 4 highlight x Unicode settings) likewise.",
         "No deductive part: the parser is a Lark table generated from a grammar string. Findings repaired: exported "
         "subst_type / apply_induct steps and empty instantiations did not parse back. Known finding recorded: an "
         "instantiation argument is exported without its type instantiation.", '4 C07')
_bounded('C09',
         "Bounded stand-in (not a proof): first_order_match on generated first-order and higher-order patterns "
         "against instances and unrelated targets: the result instantiates the pattern to the target up to "
         "beta-eta, extends the given instantiation, leaves the caller's object untouched; first-order completeness.",
         "No deductive part (closures mutating a shared Inst).", '4 C09')
_bounded('C10',
         "Bounded stand-in (not a proof): conversions (nat/real/propositional normalisers, traversal combinators "
         "with rewrite rules) on generated terms: equation about the given term, no hypotheses, exported proof "
         "accepted by the checker, eval agrees; canonicity under rearrangement (incl. powers against written-out "
         "products) and idempotence, for nat.norm_full, real_norm_conv, auto.auto_conv and proplogic.norm_full; the sum "
         "normaliser real.norm_add_polynomial called directly on sums of normalised monomials with one monomial cancelled.",
         "Known findings recorded: proplogic.norm_full on members containing a literal and its negation; "
         "nat.norm_full treats powers as opaque atoms; auto.auto_conv leaves powers >= 4 of sums unexpanded.", '4 C10')

_bounded('C17',
         "Bounded stand-in (not a proof): CongClosure on all equation sets of <= 3 (thorough 4) constant / application "
         "equations over 4 constants in ALL merge orders with interleaved queries, and on random sets up to 8 "
         "constants, spanning trees, and applications whose two arguments lie in one class that is absorbed stepwise "
         "(one scenario in all merge orders + random): test(a, b) = entailment by a naive fix-point closure, explanations use only merged equations; "
         "the HOL wrapper's explanations are re-checked by the kernel.",
         "No deductive part (one global representation invariant over aliased dictionaries). Explanations the HOL "
         "wrapper fails to build (exception) count as no answer.", '4 C17')

_bounded('C04',
         "Bounded stand-in (not a proof): every macro line of the recorded library proofs (as recorded and with 8 kinds "
         "of mutation), of the states reached by generated editing sessions, generated goals for the normalisation "
         "macros with an own evaluation, library theorems applied with vacuous / diagonal / open / beta-redex "
         "instantiations, and veriT rule instances: where both an evaluation and an expansion exist, the "
         "expansion is checked at check_level 0 and must prove the evaluated sequent with no extra hypotheses.",
         "No deductive part. Known findings recorded for the expansions of five veriT rules (th_resolution, "
         "eq_congruent, eq_congruent_pred, la_generic, and_simplify); see known_findings.json.", '4 C04')
_bounded('C11',
         "Bounded stand-in (not a proof): every item of the loadable library theories is re-parsed in the theory as it "
         "is just before the item: accepted definitions satisfy the conservativity side conditions (own analysis), "
         "extensions are well-typed on a scratch copy of the theory, export_json / get_display round trips give an "
         "equal item; an adversarial family of definitions (recursive, extra variables / type variables, non-variable "
         "or repeated arguments, polymorphic, overloaded) must be rejected or satisfy the conditions; generated "
         "datatypes; inductive predicates over Booleans whose generated theorems are evaluated in the least model.",
         "No deductive part. Finding repaired: Definition.parse accepted recursive definitions, right sides with type "
         "variables absent from the constant's type, and non-variable arguments.", '4 C11')
_bounded('C12',
         "Bounded stand-in (not a proof): (theory, limit) targets loaded in fresh subprocesses after 11 kinds of history "
         "(other theories, modules with import-time loads, other limits, failing loads, interrupted loads, repeated "
         "loads) are compared with the fresh load by a digest of theory.thy.data; a modified file is re-read and an "
         "import cycle is reported (scratch copy of the tree); the content of limited loads is compared with the theory "
         "files (imports complete, own theorems before the limit only, limits at keys recurring in imports).",
         "No deductive part. Finding repaired: a load interrupted by an exception left a time-stamped cache entry "
         "without (or with partial) content.", '4 C12')
_bounded('C14',
         "Bounded stand-in (not a proof): at the states reached by generated editing sessions and recorded library "
         "steps, every suggestion of search_method (for random goal / fact selections) is applied to a copy: it "
         "succeeds or asks for parameters, leaves only advertised subgoals, none when advertised as solving, and "
         "advertised facts appear as new proved lines.",
         "No deductive part. Findings repaired: exists_elim dropping subproofs of later lines; backward steps "
         "suggested up to eta.", '4 C14')
CHECKS['C18'] = dict(
    category='proof',
    text="Deductive (all argument lists, all premises): the evaluation of 37 propositional veriT rules is proved "
         "sound - whenever `eval` returns, the returned clause is true under every valuation of its atoms that makes "
         "the premise true (tautology rules: under every valuation) and carries exactly the premise's hypotheses. "
         "Rules: not_not, implies, implies_pos, implies_neg1/2, false, equiv_pos1/2, equiv_neg1/2, equiv1/2, "
         "not_equiv1/2, ite_pos1/2, ite_neg1/2, ite1/2, not_ite1/2, xor_pos1/2, xor_neg1/2, not_implies1/2, and, "
         "or, or_neg, or_pos, not_or, eq_reflexive, and_pos, and_neg, contraction (quick tier), not_and (thorough tier). Under contract too: "
         "kernel.term.Or / And (right-nested connective of any number of arguments, loop invariants), "
         "Term.strip_disj / strip_conj (functional contracts), strip_disj_n, try_resolve. Semantics = spec function "
         "`pv` (conj, disj, implies, neg, xor, Boolean equality and conditional, true, false; anything else an atom) "
         "with induction lemmas relating clause lists and nested connectives. Every other rule (~55: resolvent "
         "construction, equality / congruence, arithmetic, simplification, quantifier rules) is covered by the "
         "bounded stand-in c18_verit only (z3 oracle on an own encoding) - labelled bounded, not counted as proved.",
    note="Trusted: pyvc, z3 5.1, /usr/bin/z3 4.8.12 as second back end (unsat answers only); that `pv` is the truth "
         "value in HOL models is the textbook semantics of the connectives. Pre-condition (A1b made explicit) for the "
         "rules reading an equality / conditional: the clause and premise are well-typed Boolean terms with the "
         "connective constants at their declared types. The contracts are also evaluated natively on enumerated "
         "clauses under all valuations (c18_contracts: vacuity and encoding guard). Rules with binders and contexts "
         "(refl, bind, sko_*, onepoint, forall_inst, qnt_*) are not exercised at all.",
    technique="contract-based deductive verification of the real rule evaluations (own ast->z3 VC generator, "
              "semantic post-conditions over a propositional valuation, loop invariants, induction lemmas; z3 5.1 + "
              "z3 4.8.12) + run-time contracts on the remaining rules over enumerated inputs (bounded stand-in)",
    design='4 C18')
_bounded('C06',
         "Bounded stand-in (not a proof): directed and generated goals of the translatable fragment (quantifiers over "
         "nat/int/real/bool in both polarities, truncated subtraction, division, of_nat, functions, sets) given to "
         "z3wrapper.solve; an accepted goal must be valid under an own guard-correct encoding (counter-models of "
         "quantifier-free goals replayed by exact evaluation). Goals accepted by the SymPy step (rational expressions, "
         "with and without interval premise) are evaluated exactly on a grid with x / 0 = 0.",
         "No deductive part (meaning of a translation to an external solver). Findings repaired: unguarded nat binders, "
         "function equality, of_nat under binders (Z3); structural disequality and cancelled divisors (SymPy). "
         "Transcendental functions in the SymPy step are not exercised.", '4 C06')
_bounded('C08',
         "Bounded stand-in (not a proof): type_infer on erasures (5 kinds) of generated well-typed terms over theory "
         "real (overloaded arithmetic, polymorphic constants, higher-order variables, nested binders), on ill-typed "
         "mutants, on occurs-check chains in all constraint orders and on clashing variable uses: own error or a "
         "type-correct, same-shape, annotation-preserving, fully determined result; exact recovery of the original.",
         "No deductive part (closures over shared union-find state, in-place mutation). Two findings repaired "
         "(occurs check not transitive; annotated and unannotated occurrence of one variable at two types).", '4 C08')

NOT_APPLICABLE = {
    'C19': "real-analytic equality of integrals/limits/series with a numeric floating-point oracle; no decidable "
           "function contract (DESIGN 4 C19)",
}

NOT_YET = {
}


def main():
    ids = ['C%02d' % i for i in range(1, 21)]
    checks = []
    for pid in ids:
        if pid in CHECKS:
            c = CHECKS[pid]
            checks.append({
                'property_id': pid,
                'quick_cmd': './check %s --tier quick' % pid,
                'thorough_cmd': './check %s --tier thorough' % pid,
                'evidence_file': '/verif/evidence/%s.json' % pid,
                'replay_cmd_template': './check %s --replay {path}' % pid,
                'engine': 'pyvc',
                'level_claimed': {'category': c['category'], 'text': c['text'], 'design_ref': c['design']},
                'level_note': c['note'],
                'technique': c['technique'],
            })
    na = []
    for pid in ids:
        if pid in CHECKS:
            continue
        if pid in NOT_APPLICABLE:
            na.append({'property_id': pid, 'reason': NOT_APPLICABLE[pid]})
        else:
            na.append({'property_id': pid, 'reason': NOT_YET.get(
                pid, 'no check registered yet: contracts for this property are not built or not green')})
    m = {
        'version': 1,
        'setup_cmd': 'true',
        'hooks': {
            'guard': 'HOLPY_VERIF',
            'enable': 'no hooks: contracts are side-car files in /verif/contracts; /repo is read through ast on '
                      'every run and imported natively for replay',
            'baseline_off_cmd': BASELINE,
            'source_commits': [],
            'add_only': True,
        },
        'engines': [{'name': 'pyvc', 'path': '/verif/pyvc', 'serves_properties': sorted(CHECKS),
                     'kind_free_text': 'modular VC generator for a Python subset (ast of /repo + side-car '
                                       'contracts -> z3), with native replay and bounded cross-check'}],
        'checks': checks,
        'notes': 'See DESIGN.md. fix: commits in /repo are listed in known_findings.json.',
        'not_applicable': na,
    }
    with open(os.path.join(HERE, 'MANIFEST.json'), 'w') as f:
        json.dump(m, f, indent=1)
    import jsonschema
    jsonschema.validate(m, json.load(open('/root/.vp/MANIFEST.schema.json')))
    print('MANIFEST.json written: %d checks, %d not_applicable' % (len(checks), len(na)))


if __name__ == '__main__':
    main()
