import faulthandler, sys
faulthandler.enable()
faulthandler.dump_traceback_later(int(sys.argv[1]), exit=True)
sys.argv = ['run1.py'] + sys.argv[2:]
exec(open('/verif/run2.py').read())
