import faulthandler, sys
faulthandler.dump_traceback_later(int(sys.argv[1]), exit=True)
sys.argv = ['run1.py'] + sys.argv[2:]
exec(open('/verif/run1.py').read())
