"""Per-property verification plans: which side-car contracts are verified for which property."""

COMMON_ASSUMPTIONS = [
    "A2: pyvc itself (translation of the Python subset to z3, induction scheme) is trusted; "
    "mitigated by the native cross-check of every contract clause on the real functions",
    "A3: z3 answers unsat correctly",
    "A4: dict/set behave as maps/sets keyed by __eq__ (hash collisions not modelled)",
    "A5: no RecursionError/MemoryError; CPython id() unique among live objects (ID-INJ)",
    "A8: value semantics for immutable containers, reference semantics for dict-like objects; "
    "functions verified for unaliased arguments",
    "A9: termination proved only where a decreases clause exists",
    "Abs.var_name, _hash_val, exception message texts are not modelled (DESIGN 2.2)",
]

KERNEL_SPECS = ['spec.terms', 'spec.types', 'spec.subst', 'spec.thm']
KERNEL_CONTRACTS = ['contracts.kernel_term', 'contracts.kernel_type', 'contracts.kernel_term2',
                    'contracts.kernel_thm']

TERM_TARGETS = [
    'kernel.term.Term.size', 'kernel.term.Term.is_comb', 'kernel.term.Term.__eq__',
    'kernel.term.Term.is_open.rec', 'kernel.term.Term.is_open',
    'kernel.term.Term.incr_boundvars.rec', 'kernel.term.Term.incr_boundvars',
    'kernel.term.Term.subst_bound.rec', 'kernel.term.Term.subst_bound', 'kernel.term.Term.beta_conv',
    'kernel.term.Term.abstract_over.rec', 'kernel.term.Term.abstract_over',
    'kernel.term.Term.get_type.rec', 'kernel.term.Term.get_type',
    'kernel.term.Term.checked_get_type.rec', 'kernel.term.Term.checked_get_type',
    'kernel.term.Term.strip_comb', 'kernel.term.Term.args', 'kernel.term.Term.head',
    'kernel.term.Term.subst_type', 'kernel.term.Term.subst.rec', 'kernel.term.Term.subst',
    'kernel.type.Type.__eq__', 'kernel.type.Type.subst', 'kernel.type.Type.match_incr',
    'lemma:lift_closed', 'lemma:rev_rargs', 'lemma:len_args', 'lemma:args_small',
]

THM_RULES = ['assume', 'implies_intr', 'implies_elim', 'reflexive', 'symmetric', 'transitive', 'combination',
             'equal_intr', 'equal_elim', 'subst_type', 'beta_conv', 'abstraction', 'forall_intr', 'forall_elim']

C01_TARGETS = ['kernel.thm.Thm.' + r for r in THM_RULES] + [
    'kernel.thm.Thm.check_thm_type', 'kernel.thm.Thm.can_prove',
    'kernel.term.Term.occurs_var',
] + TERM_TARGETS     # the kernel.term / kernel.type functions the rules are built from carry the property too

C05_TARGETS = [
    'kernel.term.Term.is_binary', 'kernel.term.Term.dest_binary', 'kernel.term.Term.is_nat_number',
    'kernel.term.Term.is_frac_number', 'kernel.term.Term.is_number', 'kernel.term.Term.dest_number',
    'kernel.term.Term.is_constant', 'kernel.term.Term.is_comb',
    'data.nat.nat_eval', 'data.nat.nat_eval_macro.eval',
    'data.integer.int_eval', 'data.integer.int_eval_macro.eval', 'data.integer.int_const_ineq_macro.eval',
    'data.real.real_eval.rec', 'data.real.real_eval', 'data.real.real_eval_macro.eval',
    'data.real.RealEqMacro.eval', 'data.real.RealCompareMacro.eval', 'data.real.real_const_ineq_macro.eval',
    'lemma:den_bin', 'lemma:num_den_nat', 'lemma:num_den_frac', 'lemma:num_den', 'lemma:arith_ok_type',
    'lemma:arith_ok_shape', 'lemma:app_shapes', 'lemma:nargs_nonneg',
]

C18_RULES = ['not_not', 'implies', 'implies_pos', 'implies_neg1', 'implies_neg2', 'false',
             'equiv_pos1', 'equiv_pos2', 'equiv_neg1', 'equiv_neg2', 'ite_pos1', 'ite_pos2', 'ite_neg1', 'ite_neg2',
             'xor_pos1', 'xor_pos2', 'xor_neg1', 'xor_neg2', 'not_implies1', 'not_implies2', 'not_equiv1',
             'not_equiv2', 'equiv1', 'equiv2', 'ite1', 'ite2', 'not_ite1', 'not_ite2',
             'and', 'or', 'or_neg', 'not_or', 'or_pos', 'eq_reflexive', 'and_pos', 'and_neg', 'contraction']
C18_HELPERS = ['kernel.term.Or', 'kernel.term.And', 'kernel.term.Term.strip_disj', 'kernel.term.Term.strip_conj',
               'smt.veriT.verit_macro.strip_disj_n']
C18_LEMMAS = ['lemma:pv_disj_of', 'lemma:pv_conj_of', 'lemma:slice_tail', 'lemma:pv_sdl', 'lemma:pv_scl',
              'lemma:pv_anyl_at', 'lemma:pv_anyl_any', 'lemma:pv_alll_all', 'lemma:pv_sd0', 'lemma:pv_sc0',
              'lemma:pv_anyl0', 'lemma:pv_anyl_cons', 'lemma:pv_any_at', 'lemma:pv_all_at', 'lemma:sem_equiv_pos2', 'lemma:pv_any_tail',
              'lemma:pv_alll_mem', 'lemma:pv_anyl_mem', 'lemma:pv_alll_sub', 'lemma:pv_anyl_snoc', 'lemma:pv_anyl_snoc2']

PLANS = {
    'C01': dict(
        specs=KERNEL_SPECS, contracts=KERNEL_CONTRACTS, targets=C01_TARGETS, level='proof',
        bounded=['bounded.c01_substitution.run'],
        assumptions=COMMON_ASSUMPTIONS + [
            "A1: the rule schemas in /verif/spec/thm.py are the sound rules of HOL (literature; not "
            "machine-checked): what is proved is that each implemented rule refines its schema, side "
            "conditions included, and that check_thm_type/checked_get_type implement the typing judgement",
            "A1b: constants named equals/implies/all occur at instances of their declared types and type "
            "constructors at their declared arity (the checker does not call check_term/check_type)",
            "contracts of kernel.term helpers (get_type, subst_bound, abstract_over, args, ...) are assumed "
            "here and discharged under C03",
        ],
        trusted_base=['pyvc (this repository)', 'z3 5.1'],
    ),
    'C05': dict(
        specs=KERNEL_SPECS + ['spec.arith'], contracts=KERNEL_CONTRACTS + ['contracts.arith'],
        targets=C05_TARGETS, level='proof', uf_mul=True,
        bounded=['bounded.c05_arith.run'],
        assumptions=COMMON_ASSUMPTIONS + [
            "standard meaning of ground arithmetic terms = spec/arith.py `den` (truncated minus at nat, x/0 = 0, "
            "exact rationals), types read from the constants' own annotations",
            "A1b: arithmetic constants occur at declared instances (arith_ok); the post-conditions are stated "
            "for goals that are well-formed ground arithmetic terms at their own type",
            "products / quotients of two symbolic numbers are uninterpreted functions in the VCs (sound "
            "over-approximation, only congruence is needed)",
            "Python int/Fraction tower modelled as rationals; terms containing `power` are outside arith_ok "
            "(pow_spec uninterpreted); math.gcd uninterpreted",
            "NOT covered here: real_norm_macro (util/poly.py normaliser) and integral.inequality."
            "ConstInequalityMacro (Python floats: outside the model)",
        ],
        trusted_base=['pyvc (this repository)', 'z3 5.1'],
    ),
    'C02': dict(
        specs=KERNEL_SPECS + ['spec.ids'], contracts=KERNEL_CONTRACTS + ['contracts.kernel_proof'],
        targets=['kernel.proof.ItemID.can_depend_on', 'kernel.proof.ItemID.__eq__', 'kernel.thm.Thm.can_prove',
                 'lemma:dep_irreflexive', 'lemma:dep_block_open', 'lemma:dep_before', 'lemma:dep_transitive'],
        bounded=['bounded.c02_checker.run'], level='proof',
        assumptions=COMMON_ASSUMPTIONS + [
            "deductive part: the dependency rule (can_depend_on) admits exactly earlier siblings of ancestors-or-self, "
            "which lie strictly earlier in the checker's depth-first order and never inside a closed block; "
            "can_prove = same conclusion and hypotheses subset",
            "checker-level statement (check_proof / _check_proof_item / checked_extend: every cited step was itself "
            "checked, stated sequents no stronger than derived, gaps, extensions) is covered ONLY by the bounded "
            "stand-in bounded/c02_checker.py (exhaustive small proof objects + seeded mutations, truth-table oracle); "
            "it is reported under coverage.bounded and not counted in obligations/discharged",
        ],
        trusted_base=['pyvc (this repository)', 'z3 5.1'],
    ),
    'C13': dict(
        specs=KERNEL_SPECS + ['spec.ids'], contracts=KERNEL_CONTRACTS + ['contracts.kernel_proof'],
        targets=['kernel.proof.ItemID.incr_id_after', 'kernel.proof.ItemID.decr_id', 'kernel.proof.ItemID.incr_id',
                 'kernel.proof.ItemID.last', 'kernel.proof.ItemID.can_depend_on', 'kernel.proof.ItemID.__eq__',
                 'lemma:incr_injective', 'lemma:incr_keeps_length', 'lemma:incr_preserves_dep',
                 'lemma:decr_preserves_dep', 'lemma:decr_injective', 'lemma:dep_before'],
        bounded=['bounded.c13_state.run'], level='proof',
        assumptions=COMMON_ASSUMPTIONS + [
            "only the identifier arithmetic behind add_line_before / remove_line / replace_id is under contract "
            "(renumbering = spec, injective, length preserving, preserves the dependency relation between surviving "
            "lines); three of the renumbering lemmas are discharged by enumeration of all sequence lengths <= 4 "
            "(reported as bounded_lemma_instances, not counted as proved)",
            "the whole-state invariant of ProofState editing (full re-check = stated goal, last line, contiguous "
            "numbering, citations, no_gaps when finished, export/re-import, copy isolation) is covered ONLY by the "
            "bounded stand-in bounded/c13_state.py (generated goals + recorded library steps, random perturbations, "
            "every step on a copy first) - a deductive treatment needs a heap model of aliased Proof/ProofItem objects",
        ],
        trusted_base=['pyvc (this repository)', 'z3 5.1'],
    ),
    'C15': dict(
        specs=['spec.satspec'], contracts=['contracts.sat'],
        targets=['prover.sat.is_solution', 'prover.sat.resolution'],
        bounded=['bounded.c15_sat.run'], level='proof', native_per_fn={'quick': 0, 'thorough': 0},
        assumptions=COMMON_ASSUMPTIONS + [
            "deductive part: is_solution(cnf, a) = every clause has a literal made true by a (nested loops with "
            "break, all lengths); resolution(c1, c2, x) (clauses as sets) is sound for every assignment of x when x "
            "occurs in c1 and c2 only with opposite signs, and x does not occur in the resolvent",
            "the CDCL loop itself (unit_propagate / analyze_conflict / backtrack: closures over shared mutable "
            "state), termination, verdicts and the validity of resolution traces are covered ONLY by the bounded "
            "stand-in bounded/c15_sat.py (exhaustive small clause sets, random larger ones, exhaustive-search oracle, "
            "own trace checker); tseitin.encode is not covered yet",
        ],
        trusted_base=['pyvc (this repository)', 'z3 5.1'],
    ),
    'C04': dict(
        specs=[], contracts=[], targets=[], bounded=['bounded.c04_macros.run'], level='exploration',
        native_per_fn={'quick': 0, 'thorough': 0},
        rule='see coverage.bounded[0].rule',
        assumptions=[
            "bounded stand-in only: the property relates two code paths of ~130 macro classes (eval / get_proof_term) "
            "through the whole checker; the run-time contract applies both to the same (rule, arguments, premises) and "
            "checks the expansion with theory.check_proof at check_level 0",
            "inputs for which the evaluation raises or the expansion is not produced (raises) are outside the property "
            "and only counted; macros of level 0 (nat/int/real_eval, *_const_ineq, z3, sympy) are trusted oracles at the "
            "default level and are covered by C05 / C06",
        ],
        trusted_base=['kernel checker (C01/C02 contracts)', 'own generators'],
    ),
    'C11': dict(
        specs=[], contracts=[], targets=[], bounded=['bounded.c11_items.run'], level='exploration',
        native_per_fn={'quick': 0, 'thorough': 0},
        rule='see coverage.bounded[0].rule',
        assumptions=[
            "bounded stand-in only: the side conditions of Definition.parse are syntactic tests on parsed terms; the "
            "harness re-derives them independently (own free-variable / type-variable / overlap analysis) for every "
            "accepted definition of the library and of an adversarial family; extension typing is checked on a scratch "
            "copy of the theory, round trips as server.monitor.check_theory makes them",
            "conservativity itself (a definition satisfying the side conditions cannot introduce inconsistency) is the "
            "standard HOL argument and is not re-proved; Fun / Inductive / Datatype items are axiomatic by design and only "
            "their extension typing and round trips are checked",
        ],
        trusted_base=['kernel type checker', 'own analysis'],
    ),
    'C12': dict(
        specs=[], contracts=[], targets=[], bounded=['bounded.c12_loading.run'], level='exploration',
        native_per_fn={'quick': 0, 'thorough': 0},
        rule='see coverage.bounded[0].rule',
        assumptions=[
            "bounded stand-in only: the property quantifies over process histories (import order, caches, file system); "
            "every scenario runs in a fresh subprocess and is compared with the fresh load by a digest of theory.thy.data",
            "file modification and the import cycle are exercised in a scratch copy of the working tree (removed "
            "afterwards); only the master user's library is exercised",
        ],
        trusted_base=['own scenario scripts'],
    ),
    'C14': dict(
        specs=[], contracts=[], targets=[], bounded=['bounded.c14_search.run'], level='exploration',
        native_per_fn={'quick': 0, 'thorough': 0},
        rule='see coverage.bounded[0].rule',
        assumptions=[
            "bounded stand-in only: search / apply agreement is a relation between two methods of ~18 classes over "
            "mutable proof states; checked at the states reached by the C13 editing sessions",
            "parameters that a method declares and a suggestion leaves open are supplied by the harness (fresh names, a "
            "context variable of the bound variable's type); suggestions for which no such parameter exists are skipped",
        ],
        trusted_base=['own generators'],
    ),
    'C18': dict(
        models=[], specs=['spec.terms', 'spec.types', 'spec.veritspec'],
        contracts=['contracts.kernel_term', 'contracts.kernel_type', 'contracts.verit'],
        targets=['smt.veriT.verit_macro.try_resolve'] + C18_LEMMAS + C18_HELPERS +
                ['smt.veriT.verit_macro.macro__verit_%s.eval' % r for r in C18_RULES],
        # not_and needs ~75 s for one invariant obligation: thorough tier only (budget 120 s per obligation)
        thorough_targets=['smt.veriT.verit_macro.macro__verit_not_and.eval'],
        bounded=['bounded.c18_verit.run', 'bounded.c18_contracts.run'], level='proof', timeout_ms=60000, feas_reduced=True, seq_in_spec={'Term': 'meml'},
        native_per_fn={'quick': 0, 'thorough': 0},
        rule='see coverage.bounded[0].rule',
        assumptions=COMMON_ASSUMPTIONS + [
            ("deductive part: the evaluation (`eval`) of %d veriT rules is proved sound for ALL argument lists and " % len(C18_RULES)) +
            "premises: whenever it returns, the returned clause is true under every valuation of its atoms in which "
            "the premise is true (spec/veritspec.py `pv`: conj, disj, implies, neg, xor, Boolean equality, Boolean "
            "conditional, true, false; every other term is an atom, a reflexive equation is true), and its "
            "hypotheses are those of the premise (none for tautology rules). Rules: " + ', '.join(C18_RULES) +
            ". Under contract as well: kernel.term.Or / And (= right-nested disjunction / conjunction of the "
            "arguments, any number), Term.strip_disj / strip_conj (= members of the right-nested connective, "
            "functional contracts), strip_disj_n, and try_resolve (pivot search of th_resolution)",
            "A1b made a precondition for the rules that read an equality or a conditional (equiv*, not_equiv*, "
            "ite*, not_ite*, xor*): the given clause (and premise) are well-typed Boolean terms whose connective "
            "constants carry their declared types (spec `wfb`); on ill-typed input such as `~(a = b) | a | ~b` with "
            "naturals a, b the notion of consequence is void. The other rules are proved without precondition",
            "soundness of `pv` w.r.t. HOL models (every standard model induces a valuation under which pv computes "
            "the truth value of closed Boolean terms) is the textbook semantics of the connectives, not machine-checked",
            "every other rule evaluation (~55 rules: resolution's resolvent, equality / congruence, arithmetic, "
            "simplification, quantifier and let rules), the construction of the resolvent in resolve_order, and the "
            "hypothesis clause for rules with several premises are covered ONLY by the bounded stand-in "
            "bounded/c18_verit.py: 'semantic consequence' decided by z3 on an own encoding, 3 s per query, "
            "'unknown' is never a violation; refl, let, bind, sko_ex, sko_forall, onepoint, forall_inst, subproof "
            "and the quantifier rules (qnt_*) are NOT exercised",
            "bounded/c18_contracts.py evaluates the contracts of the proved rules natively (pre-condition true and "
            "post-condition true under all valuations of the atoms, on every accepted clause of a small enumeration): "
            "a guard against vacuous pre-conditions and against an unsound encoding, not counted as proof",
        ],
        trusted_base=['pyvc (this repository)', 'z3 5.1', '/usr/bin/z3 4.8.12 (second back end, unsat answers only)'],
    ),
    'C06': dict(
        specs=[], contracts=[], targets=[], bounded=['bounded.c06_solvers.run'], level='exploration',
        native_per_fn={'quick': 0, 'thorough': 0},
        rule='see coverage.bounded[0].rule',
        assumptions=[
            "bounded stand-in only: the property is about the meaning of a translation into an external solver; the "
            "run-time contract compares z3wrapper.solve with z3 on an OWN guard-correct encoding (nat binders guarded, "
            "truncated subtraction, x / 0 = 0, extensional function equality, of_nat = ToReal) and replays quantifier-"
            "free counter-models by exact evaluation; goals accepted by the SymPy step are evaluated exactly (Fraction, "
            "x / 0 = 0) on a grid",
            "trusted: z3 (both sides of the comparison use it), the own encoding and evaluator; transcendental "
            "functions, sqrt, log, real powers and poles of tan/cot/sec/csc in the SymPy step are NOT exercised",
            "solver budget: z3 timeout 4 s for the wrapper, 8 s for the oracle; 'unknown' on the oracle side is counted "
            "as undecided, never as a violation",
        ],
        trusted_base=['z3 5.1', 'own encoding / evaluator'],
    ),
    'C08': dict(
        specs=[], contracts=[], targets=[], bounded=['bounded.c08_infer.run'], level='exploration',
        native_per_fn={'quick': 0, 'thorough': 0},
        rule='see coverage.bounded[0].rule',
        assumptions=[
            "bounded stand-in only: type_infer is one function with five closures over shared mutable union-find / "
            "reachability dictionaries mutating the input term in place; no contract within reach of the engine "
            "expresses 'most general unifier'. Run-time contract on type_infer over generated skeletons, oracle = "
            "kernel type checker + comparison with the original well-typed term",
            "two occurrences of one name that the skeleton itself annotates with different types are treated as "
            "two variables (the kernel identifies variables by name and type)",
        ],
        trusted_base=['kernel type checker (C01/C03 contracts)', 'own generator'],
    ),
    'C16': dict(
        specs=[], contracts=[], targets=[], bounded=['bounded.c16_linear.run'], level='exploration',
        native_per_fn={'quick': 0, 'thorough': 0},
        rule='see coverage.bounded[0].rule',
        assumptions=[
            "bounded stand-in only (no function of prover/omega.py or prover/simplex.py is under contract yet): "
            "run-time contract on solve_matrix and Simplex over enumerated / random systems, oracle z3 (LIA/LRA) and "
            "own evaluation of witnesses; calls that raise are counted as 'no answer', not as wrong answers",
            "OmegaHOL / SimplexHOLWrapper proof construction is exercised only through solve_matrix's verdict",
        ],
    ),
    'C07': dict(
        specs=[], contracts=[], targets=[], bounded=['bounded.c07_roundtrip.run'], level='exploration',
        native_per_fn={'quick': 0, 'thorough': 0}, rule='see coverage.bounded[0].rule',
        assumptions=['bounded stand-in only: the round trip runs through a Lark LALR table generated at import from a grammar string; no function contract an SMT solver can discharge relates printed text to the parsed term. Instantiations and exported proof steps are not yet exercised'],
    ),
    'C09': dict(
        specs=[], contracts=[], targets=[], bounded=['bounded.c09_matcher.run'], level='exploration',
        native_per_fn={'quick': 0, 'thorough': 0}, rule='see coverage.bounded[0].rule',
        assumptions=['bounded stand-in only: run-time contract on first_order_match over generated pattern/target pairs; the closures of the matcher mutate a shared Inst and were not brought under a deductive contract'],
    ),
    'C10': dict(
        specs=[], contracts=[], targets=[], bounded=['bounded.c10_conv.run'], level='exploration',
        native_per_fn={'quick': 0, 'thorough': 0}, rule='see coverage.bounded[0].rule',
        assumptions=['bounded stand-in only: run-time contract on conversions (equation about t, checker accepts the exported proof, eval agrees) and canonicity/idempotence of normalisers over generated terms and rearrangements'],
    ),
    'C17': dict(
        specs=[], contracts=[], targets=[], bounded=['bounded.c17_congc.run'], level='exploration',
        native_per_fn={'quick': 0, 'thorough': 0}, rule='see coverage.bounded[0].rule',
        assumptions=['bounded stand-in only: correctness of the Nieuwenhuis-Oliveras structure is one representation '
                     'invariant over six aliased dictionaries with an inductively defined entailment relation, outside '
                     'what function contracts discharged by an SMT solver can carry; explanations the HOL wrapper fails '
                     'to construct (exception) are counted as no answer'],
    ),
    'C20': dict(
        models=['models.imperative'], specs=['spec.imp'], contracts=['contracts.imperative'],
        targets=['imperative.expr.Var.subst', 'imperative.expr.ArrayElt.subst', 'imperative.expr.Field.subst',
                 'imperative.expr.Const.subst', 'imperative.expr.Op.subst', 'imperative.expr.Fun.subst',
                 'imperative.expr.ITE.subst', 'lemma:no_forall_nth', 'lemma:idents_nth'],
        bounded=['bounded.c20_programs.run'], level='proof', uf_mul=True, no_smt2=True, native_per_fn={'quick': 0, 'thorough': 0},
        assumptions=COMMON_ASSUMPTIONS + [
            "deductive part: the semantic substitution lemma (evaluating e.subst(inst) in a state = evaluating e in "
            "the state updated by the assignment) for every override of Expr.subst except Forall, for syntactically "
            "well-typed expressions whose array identifiers are not assigned; semantics = spec/imp.py (evi/evb)",
            "Forall expressions are excluded (Forall.subst captures; convert_hol does not support them)",
            "program-level soundness of compute_wp / get_vcs against execution and the print/parse agreement of "
            "conditions are covered ONLY by the bounded stand-in bounded/c20_programs.py",
            "the HOL side (imp.eval_Sem, vcg over library/hoare.json) is not covered",
        ],
        trusted_base=['pyvc (this repository)', 'z3 5.1'],
    ),
    'C03': dict(
        specs=KERNEL_SPECS, contracts=KERNEL_CONTRACTS, targets=TERM_TARGETS, level='proof',
        custom=['models.holpy.id_inj_frame'], bounded=['bounded.c03_hash.run'],
        assumptions=COMMON_ASSUMPTIONS + [
            "the hash / order clauses (equal terms hash equally, also after in-place type instantiation or inference; "
            "fast_compare is a total order agreeing with ==) are NOT under contract: bounded stand-in "
            "bounded/c03_hash.py on generated terms",
            "tuple equality of Type.args uses Type.__eq__'s own contract as induction hypothesis",
            "denotation preservation in every model is A1 (the spec functions lift/inst_bound/abstract are "
            "the standard de Bruijn operations)",
        ],
        trusted_base=['pyvc (this repository)', 'z3 5.1'],
    ),
}
