"""Per-property verification plans: which side-car contracts are verified for which property."""

COMMON_ASSUMPTIONS = [
    "A2: pyvc itself (translation of the Python subset to z3, induction scheme) is trusted; "
    "mitigated by the native cross-check of every contract clause on the real functions",
    "A3: z3 answers unsat correctly",
    "A4: dict/set behave as maps/sets keyed by __eq__ (hash collisions not modelled)",
    "A5: no RecursionError/MemoryError; CPython id() unique among live objects (ID-INJ)",
    "A8: value semantics for mutation; functions verified for unaliased arguments",
    "A9: termination proved only where a decreases clause exists",
    "Abs.var_name, _hash_val, exception message texts are not modelled (DESIGN 2.2)",
]

TERM_TARGETS = [
    'kernel.term.Term.size', 'kernel.term.Term.is_comb', 'kernel.term.Term.__eq__',
    'kernel.term.Term.is_open.rec', 'kernel.term.Term.is_open',
    'kernel.term.Term.incr_boundvars.rec', 'kernel.term.Term.incr_boundvars',
    'kernel.term.Term.subst_bound.rec', 'kernel.term.Term.subst_bound', 'kernel.term.Term.beta_conv',
    'kernel.term.Term.occurs_var', 'kernel.term.Term.abstract_over.rec', 'kernel.term.Term.abstract_over',
    'lemma:lift_closed',
]

PLANS = {
    'C03': dict(
        specs=['spec.terms'],
        contracts=['contracts.kernel_term'],
        targets=TERM_TARGETS,
        level='proof',
        assumptions=COMMON_ASSUMPTIONS,
        trusted_base=['pyvc (this repository)', 'z3 5.1'],
    ),
}
