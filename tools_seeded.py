"""Evaluate a seeded change: apply to /repo, run its demonstration and the given checks, undo.
usage: tools_seeded.py <name> <dir with patch.diff demo.py notes.md> <property> <check ids...>
Copies the change into /verif/seeded/<name>/ and writes meta.json there."""
import json, os, shutil, subprocess, sys, time

name, src, prop = sys.argv[1], sys.argv[2], sys.argv[3]
checks = sys.argv[4:]
dst = os.path.join('/verif/seeded', name)
os.makedirs(dst, exist_ok=True)
for f in ('patch.diff', 'demo.py', 'notes.md'):
    if os.path.exists(os.path.join(src, f)) and os.path.abspath(src) != os.path.abspath(dst):
        shutil.copy(os.path.join(src, f), os.path.join(dst, f))
patch = os.path.join(dst, 'patch.diff')


def sh(cmd, timeout=1800):
    p = subprocess.run(cmd, shell=True, capture_output=True, text=True, timeout=timeout)
    return p.returncode, (p.stdout + p.stderr)[-1500:]

meta = {'name': name, 'property': prop, 'evaluated_at': time.strftime('%Y-%m-%d %H:%M:%S'),
        'repo_head': sh('git -C /repo rev-parse --short HEAD')[1].strip()}
assert sh('git -C /repo status --porcelain --untracked-files=no')[1].strip() == '', 'repo not clean'
rc, out = sh('git -C /repo apply --check %s' % patch)
meta['applies'] = (rc == 0)
if rc != 0:
    meta['apply_error'] = out
else:
    sh('git -C /repo apply %s' % patch)
    try:
        rc, out = sh('cd /repo && /venv/bin/python %s /repo' % os.path.join(dst, 'demo.py'))
        meta['demo_with_change'] = {'exit': rc, 'tail': out[-400:]}
        meta['checks_with_change'] = {}
        for c in checks:
            t0 = time.time()
            rc, out = sh('cd /verif && ./check %s --tier quick' % c)
            viol = [l for l in out.splitlines() if l.startswith('VIOLATION') or l.startswith('UNDECIDED') or l.startswith('OUT-OF-REACH')]
            meta['checks_with_change'][c] = {'exit': rc, 'lines': viol[:6], 'secs': round(time.time() - t0, 1)}
    finally:
        sh('git -C /repo checkout -- .')
    rc, out = sh('cd /repo && /venv/bin/python %s /repo' % os.path.join(dst, 'demo.py'))
    meta['demo_without_change'] = {'exit': rc, 'tail': out[-300:]}
meta['caught_by'] = [c for c, r in meta.get('checks_with_change', {}).items() if r['exit'] == 1]
if os.path.exists(os.path.join(dst, 'notes.md')):
    meta['needs_to_manifest'] = open(os.path.join(dst, 'notes.md')).read()[:1500]
try:
    old = json.load(open(os.path.join(dst, 'meta.json')))
    for k in ('baseline_with_change', 'history'):
        if k in old and k not in meta:
            meta[k] = old[k]
    if old.get('caught_by') != meta.get('caught_by') and old.get('evaluated_at'):
        meta.setdefault('history', []).append({'evaluated_at': old.get('evaluated_at'), 'repo_head': old.get('repo_head'),
                                               'caught_by': old.get('caught_by')})
except Exception:
    pass
json.dump(meta, open(os.path.join(dst, 'meta.json'), 'w'), indent=1)
print(json.dumps({k: v for k, v in meta.items() if k != 'needs_to_manifest'}, indent=1)[:2500])
