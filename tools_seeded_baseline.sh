#!/bin/sh
# Confirm, for every seeded change that has no record yet, that the repository's stable baseline still passes with the
# change applied. Each change is tried in its own scratch worktree under /tmp (removed afterwards); /repo is not touched.
# usage: tools_seeded_baseline.sh [parallelism]
P=${1:-4}
mkdir -p /tmp/bl
ls /verif/seeded | xargs -P $P -I{} sh -c '
n={}
d=/verif/seeded/$n
if grep -q "\"baseline_with_change\"" $d/meta.json 2>/dev/null; then echo "$n: already recorded"; exit 0; fi
wt=/tmp/wt_bl_$n
git -C /repo worktree add -q --detach $wt HEAD || exit 0
if git -C $wt apply $d/patch.diff; then
  REPO=$wt /verif/tools_baseline.sh /tmp/bl/seeded_$n.xml > /tmp/bl/seeded_$n.txt 2>&1
  /venv/bin/python -c "
import json, sys
p = sys.argv[1] + \"/meta.json\"
m = json.load(open(p))
m[\"baseline_with_change\"] = open(sys.argv[2]).read().strip()[:300]
json.dump(m, open(p, \"w\"), indent=1)
" $d /tmp/bl/seeded_$n.txt
  echo "$n: $(head -1 /tmp/bl/seeded_$n.txt)"
else
  echo "$n: patch does not apply"
fi
git -C /repo worktree remove --force $wt
'
