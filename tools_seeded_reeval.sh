#!/bin/sh
# Re-evaluate every seeded change against the current checks WITHOUT touching /repo: each change is applied in its own
# scratch worktree under /tmp (removed afterwards) and the check of its property is run with PYVC_REPO / HOLPY_REPO
# pointing there.  Records {repo_head, exit, lines} under "reevaluated" in the change's meta.json.
# usage: tools_seeded_reeval.sh [parallelism] [name-pattern]
P=${1:-3}
PAT=${2:-.}
mkdir -p /tmp/reeval
ls /verif/seeded | grep -E "$PAT" | xargs -P $P -I{} sh -c '
n={}
d=/verif/seeded/$n
prop=$(/venv/bin/python -c "import json,sys; print(json.load(open(sys.argv[1]))[\"property\"])" $d/meta.json)
wt=/tmp/wt_ev_$n
git -C /repo worktree add -q --detach $wt HEAD || exit 0
if git -C $wt apply $d/patch.diff 2>/tmp/reeval/$n.apply; then
  (cd /verif && PYVC_REPO=$wt HOLPY_REPO=$wt ./check $prop --tier quick > /tmp/reeval/$n.out 2>&1; echo $? > /tmp/reeval/$n.rc)
  /venv/bin/python - $d $n $wt <<PY
import json, sys, subprocess
d, n, wt = sys.argv[1:4]
m = json.load(open(d + "/meta.json"))
out = open("/tmp/reeval/%s.out" % n, errors="replace").read().splitlines()
rc = int(open("/tmp/reeval/%s.rc" % n).read())
m["reevaluated"] = {"repo_head": subprocess.run(["git", "-C", "/repo", "rev-parse", "--short", "HEAD"], capture_output=True, text=True).stdout.strip(),
                    "mode": "scratch worktree (PYVC_REPO / HOLPY_REPO)", "check": m["property"], "exit": rc,
                    "lines": [l[:200] for l in out if l.startswith(("VIOLATION", "UNDECIDED", "OUT-OF-REACH"))][:4]}
json.dump(m, open(d + "/meta.json", "w"), indent=1)
print(n, "exit", rc)
PY
else
  echo "$n: patch does not apply"
fi
git -C /repo worktree remove --force $wt
'
