"""Verification of one function (or lemma) against its side-car contract."""
import ast
import time
import traceback
import z3

from .values import *
from .interp import Run, Env, Frame, enumerate_paths
from .world import World


class FunctionResult:
    def __init__(self, qualname):
        self.qualname = qualname
        self.obligations = []       # list of dicts
        self.paths = 0
        self.normal_paths = 0
        self.raise_paths = {}
        self.status = 'ok'          # ok | failed | undecided | out_of_reach | error
        self.message = ''
        self.secs = 0.0
        self.solver_secs = 0.0
        self.source_hash = ''
        self.bounded = None

    @property
    def n_obligations(self):
        return len(self.obligations)

    def failed(self):
        return [o for o in self.obligations if o['status'] == 'failed']

    def unknown(self):
        return [o for o in self.obligations if o['status'] == 'unknown']

    def to_json(self):
        return {
            'function': self.qualname, 'status': self.status, 'message': self.message, 'paths': self.paths,
            'normal_paths': self.normal_paths, 'raise_paths': self.raise_paths,
            'obligations': len(self.obligations),
            'discharged': sum(1 for o in self.obligations if o['status'] == 'proved'),
            'failed': [dict(o) for o in self.failed()][:5],
            'unknown': [dict(o) for o in self.unknown()][:5],
            'secs': round(self.secs, 3), 'solver_secs': round(self.solver_secs, 3),
            'source_hash': self.source_hash, 'bounded': self.bounded,
        }


def flatten_and(e):
    """Conjuncts of a (nested) conjunction, in order."""
    if z3.is_and(e):
        out = []
        for ch in e.children():
            out.extend(flatten_and(ch))
        return out
    return [e]


def make_target(world, qualname):
    """Build the FuncV (and the environment of captured variables) for a contract target."""
    mi, cls, chain = world.repo.lookup_function(qualname)
    node = chain[-1]
    kind = 'function'
    if cls is not None and len(chain) == 1:
        decos = cls.decorators(node.name)
        if 'staticmethod' in decos:
            kind = 'staticmethod'
        elif 'property' in decos:
            kind = 'property'
    return mi, cls, chain, FuncV(node, mi, cls, qualname, None, kind=kind)


def verify_function(world, qualname, timeout_ms=20000, max_paths=3000, only_paths=None):
    from . import interp as _I
    _I.FN_STATE.update(start=time.time(), unknown=0, budget_s=max(240.0, 6.0 * timeout_ms / 1000.0))
    res = FunctionResult(qualname)
    t0 = time.time()
    try:
        c = world.contracts[qualname]
        mi, cls, chain, fv = make_target(world, qualname)
        res.source_hash = world.repo.source_hash(qualname)
        node = fv.node
        pnames = [a.arg for a in node.args.posonlyargs + node.args.args]
        if node.args.vararg is not None:
            pnames.append(node.args.vararg.arg)
        pnames += [a.arg for a in node.args.kwonlyargs]
        for p in pnames:
            if c.params is None or p not in c.params:
                raise OutOfReach('contract %s: kind of parameter %s not declared' % (qualname, p))

        def runner(run):
            run.target = qualname
            run.target_group = getattr(c, 'group', ())
            cenv = Env(mi, None, cls)          # closure environment (captured variables)
            values = {}
            for name, k in c.captures.items():
                v = run.fresh(k, name)
                cenv.vars[name] = v
                values[name] = v
                run.inputs[name] = v
            env = Env(mi, cenv if len(chain) > 1 else None, cls)
            for p in pnames:
                v = run.fresh(c.params[p], p)
                env.vars[p] = v
                values[p] = v
                run.inputs[p] = v
            run.ghost_values = {}
            for g, k in c.ghost.items():
                v = run.fresh(k, 'g_' + g)
                values[g] = v
                run.inputs[g] = v
                run.ghost_values[g] = v
            fv2 = FuncV(node, mi, cls, qualname, cenv if len(chain) > 1 else None, kind=fv.kind)
            if len(chain) > 1:
                cenv.vars[node.name] = fv2
                # sibling closures defined in the enclosing function are reachable by name
                for sib in ast.walk(chain[-2]):
                    if isinstance(sib, ast.FunctionDef) and sib is not node and sib is not chain[-2]:
                        sq = qualname.rsplit('.', 1)[0] + '.' + sib.name
                        cenv.vars.setdefault(sib.name, FuncV(sib, mi, cls, sq, cenv))
            run.olds = {}
            for m in c.modifies:
                values['old_' + m] = run.snapshot(values[m])
                run.olds['old_' + m] = values['old_' + m]
            for lbl, fn in c.requires:
                run.assume(run.tobool(run.eval_clause(c, fn, values)))
            if c.decreases is not None:
                run.target_measure = run.measure_list(run.eval_clause(c, c.decreases, values))
            for lbl, fn in c.hints:
                run.eval_clause(c, fn, values)
            frame = Frame(fv2, env, c)
            run.frames.append(frame)
            run.inline_stack.append(qualname)
            outcome = None
            try:
                try:
                    run.exec_block(node.body, env)
                    outcome = ('return', None)
                except ReturnSig as r:
                    outcome = ('return', r.val)
            except PyRaise as pr:
                outcome = ('raise', pr.cls)
            finally:
                run.frames.pop()
                run.inline_stack.pop()
            if outcome[0] == 'return':
                values['result'] = outcome[1]
                for m in c.modifies:
                    # final value of a modified parameter (objects are updated in place)
                    values[m] = env.vars.get(m, values[m])
                if c.pure_result is not None:
                    run.spec_mode += 1
                    try:
                        want = run.call_spec(world.specs[c.pure_result[0]], [values[a] for a in c.pure_result[1:]])
                    finally:
                        run.spec_mode -= 1
                    run.prove(run.z(outcome[1], c.returns) == run.z(want, c.returns),
                              'post:%s:pure_result' % qualname, 'post')
                for lbl, fn in c.ensures:
                    cl = run.tobool(run.eval_clause(c, fn, values))
                    conj = flatten_and(cl)
                    for k, part in enumerate(conj):
                        run.prove(part, 'post:%s:%s%s' % (qualname, lbl, '#%d' % k if len(conj) > 1 else ''),
                                  'post')
                for lbl, fn in c.must_raise:
                    cl = run.tobool(run.eval_clause(c, fn, values))
                    run.prove(z3.Not(cl), 'must-raise:%s:%s' % (qualname, lbl), 'post')
            return outcome

        for run, out in enumerate_paths(world, runner, timeout_ms=timeout_ms, max_paths=max_paths):
            res.paths += 1
            res.solver_secs += run.solver_secs
            if out[0] == 'ok':
                kind, val = out[1]
                if kind == 'return':
                    res.normal_paths += 1
                else:
                    res.raise_paths[val] = res.raise_paths.get(val, 0) + 1
            for ob in run.obligations:
                res.obligations.append({'label': ob.label, 'kind': ob.kind, 'status': ob.status,
                                        'model': ob.model, 'detail': ob.detail, 'secs': round(ob.secs, 4),
                                        'path': ''.join('T' if d else 'F' for d in (ob.trace or [])),
                                        'claim': ob.claim})
        if any(o['status'] == 'failed' for o in res.obligations):
            res.status = 'failed'
        elif any(o['status'] == 'unknown' for o in res.obligations):
            res.status = 'undecided'
        elif res.n_obligations == 0:
            res.status = 'error'
            res.message = 'no obligations generated'
        elif res.normal_paths == 0 and c.ensures:
            res.status = 'error'
            res.message = 'vacuous: no path returns normally'
    except OutOfReach as e:
        res.status = 'out_of_reach'
        res.message = str(e)
    except Exception as e:     # checker crash
        res.status = 'error'
        res.message = '%s: %s\n%s' % (type(e).__name__, e, traceback.format_exc()[-1500:])
    res.secs = time.time() - t0
    return res


def verify_lemma(world, name, timeout_ms=20000, max_paths=2000):
    from . import interp as _I
    _I.FN_STATE.update(start=time.time(), unknown=0, budget_s=max(240.0, 6.0 * timeout_ms / 1000.0))
    """A side-car lemma: `def lem(args: kinds): requires(..); <proof body of calls/asserts>; ensures(..)`.
    requires(e) assumes e, ensures(e)/assert prove e; a call of another lemma or of the lemma itself
    (induction hypothesis) asserts its requires and assumes its ensures."""
    res = FunctionResult('lemma:' + name)
    t0 = time.time()
    try:
        mi, fn = world.lemmas[name]
        from .world import kind_of_annotation
        kinds = [kind_of_annotation(a.annotation) for a in fn.args.args]
        pn = [a.arg for a in fn.args.args]
        # @bounded(n): sequence parameters are enumerated over all lengths 0..n (a bounded stand-in
        # for lemmas the sequence solver cannot decide; reported as bounded, not as proved)
        bound = None
        for d in fn.decorator_list:
            if isinstance(d, ast.Call) and getattr(d.func, 'id', None) == 'bounded':
                bound = ast.literal_eval(d.args[0])
        seq_params = [i for i, k in enumerate(kinds) if isinstance(k, tuple) and k[0] == 'seq']
        import itertools
        combos = [None]
        if bound is not None and seq_params:
            combos = list(itertools.product(range(bound + 1), repeat=len(seq_params)))
            res.bounded = 'sequence lengths <= %d' % bound
        state = {'combo': None}

        def runner(run):
            run.spec_mode += 1
            run.total_access += 1
            run.lemma_mode = name
            env = Env(mi, None, None)
            for i, (p, k) in enumerate(zip(pn, kinds)):
                if state['combo'] is not None and i in seq_params:
                    ln = state['combo'][seq_params.index(i)]
                    v = ZV(run.z(ListV([run.fresh(k[1], '%s_%d' % (p, j)) for j in range(ln)]), k), k)
                else:
                    v = run.fresh(k, p)
                env.vars[p] = v
                run.inputs[p] = v
            run.lemma_args = [env.vars[p] for p in pn]
            try:
                run.exec_block(fn.body, env)
            except ReturnSig:
                pass
            return ('return', None)

        def all_runs():
            for combo in combos:
                state['combo'] = combo
                for run, out in enumerate_paths(world, runner, timeout_ms=timeout_ms, max_paths=max_paths):
                    yield run, out

        for run, out in all_runs():
            res.paths += 1
            res.solver_secs += run.solver_secs
            if out[0] == 'ok':
                res.normal_paths += 1
            elif out[0] == 'raise':
                raise OutOfReach('lemma %s raises %s' % (name, out[1]))
            for ob in run.obligations:
                res.obligations.append({'label': 'lemma:%s:%s' % (name, ob.label),
                                        'kind': 'bounded' if bound is not None else ob.kind,
                                        'status': ob.status, 'model': ob.model, 'detail': ob.detail,
                                        'secs': round(ob.secs, 4),
                                        'path': ''.join('T' if d else 'F' for d in (ob.trace or [])),
                                        'claim': ob.claim})
        if any(o['status'] == 'failed' for o in res.obligations):
            res.status = 'failed'
        elif any(o['status'] == 'unknown' for o in res.obligations):
            res.status = 'undecided'
        elif res.n_obligations == 0:
            res.status = 'error'
            res.message = 'no obligations generated'
    except OutOfReach as e:
        res.status = 'out_of_reach'
        res.message = str(e)
    except Exception as e:
        res.status = 'error'
        res.message = '%s: %s\n%s' % (type(e).__name__, e, traceback.format_exc()[-1500:])
    res.secs = time.time() - t0
    return res
