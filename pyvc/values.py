"""Symbolic value model of pyvc.

Kinds (static Python-level types known to the executor):
  'int' 'bool' 'str' 'real'            scalars backed by z3 Int/Bool/Int(interned)/Real
  <adt name>   e.g. 'Term' 'Type'      z3 algebraic datatypes generated for classes
  ('seq', K)  ('set', K)  ('map', K, V) ('opt', K) ('tuple', (K1,..,Kn))
  <record name> e.g. 'Thm'             record classes (fields), z3 datatype generated on demand
Concrete Python values (int, bool, str, None, tuple) are used directly where a value is concrete.
"""
import z3


class V:
    pass


class ZV(V):
    """A z3-backed value of the given kind."""
    __slots__ = ('e', 'kind')

    def __init__(self, e, kind):
        self.e = e
        self.kind = kind

    def __repr__(self):
        return 'ZV(%s : %s)' % (self.e, self.kind)


class IdV(V):
    """Identity token `x._id` / `id(x)` of the object denoted by `of` (a value)."""
    def __init__(self, of):
        self.of = of


class TagV(V):
    """`t.ty` of an ADT value; compared with concrete ints."""
    def __init__(self, of, adt):
        self.of = of
        self.adt = adt


class OptV(V):
    """Optional value: None when `isnone` (z3 Bool) else `val`."""
    def __init__(self, isnone, val, kind):
        self.isnone = isnone
        self.val = val
        self.kind = kind     # kind of val


class ObjV(V):
    """Mutable record object (instance of a repo class modelled as a record)."""
    def __init__(self, cls, fields=None):
        self.cls = cls            # ClassInfo
        self.fields = fields if fields is not None else {}

    def __repr__(self):
        return 'ObjV(%s %s)' % (self.cls.qualname, self.fields)


class TupleV(V):
    """Immutable Python tuple with concrete length."""
    def __init__(self, items):
        self.items = list(items)

    def __repr__(self):
        return 'TupleV(%r)' % (self.items,)


class ListV(V):
    """Mutable Python list with concrete length."""
    def __init__(self, items):
        self.items = list(items)


class DictV(V):
    """Mutable Python dict with concrete keys (python values) or memo semantics."""
    def __init__(self):
        self.items = {}
        self.memo = None          # (closure qualname) when used as an identity-keyed memo table


class MapV(V):
    """Mutable finite map (dict / UserDict): arr : K -> Opt(V), absent keys map to none.
    The object is shared by reference like a Python dict; `arr` is rebound on update."""
    def __init__(self, arr, kkind, vkind):
        self.arr = arr
        self.kkind = kkind
        self.vkind = vkind


class FuncV(V):
    def __init__(self, node, module, cls, qualname, closure=None, self_val=None, kind='function'):
        self.node = node
        self.module = module      # ModuleInfo
        self.cls = cls            # ClassInfo or None
        self.qualname = qualname
        self.closure = closure    # Env of the defining frame
        self.kind = kind          # 'function' | 'staticmethod' | 'property' | 'spec'


class BoundV(V):
    def __init__(self, self_val, func):
        self.self_val = self_val
        self.func = func


class ClassV(V):
    def __init__(self, info):
        self.info = info


class ModuleV(V):
    def __init__(self, name, info):
        self.name = name
        self.info = info


class BuiltinV(V):
    def __init__(self, name, fn=None):
        self.name = name
        self.fn = fn

    def __repr__(self):
        return 'BuiltinV(%s)' % self.name


class SpecFnV(V):
    """A spec function (z3 RecFunction) callable from contracts/spec code."""
    def __init__(self, name, decl, pkinds, rkind):
        self.name = name
        self.decl = decl
        self.pkinds = pkinds
        self.rkind = rkind


class ExcClassV(V):
    def __init__(self, name, bases):
        self.name = name
        self.bases = bases


class IterV(V):
    """Lazy generator expression (node + env), consumed by any/all/tuple/sum/... """
    def __init__(self, node, env):
        self.node = node
        self.env = env


class ZipV(V):
    def __init__(self, parts):
        self.parts = parts


class EnumV(V):
    def __init__(self, inner, start=0):
        self.inner = inner
        self.start = start


class RevV(V):
    def __init__(self, inner):
        self.inner = inner


class RangeV(V):
    def __init__(self, lo, hi, step=1):
        self.lo, self.hi, self.step = lo, hi, step


# ---- control-flow signals of the interpreted program ----

class PyRaise(Exception):
    """The interpreted program raises an exception of class `cls` (name)."""
    def __init__(self, cls, info=''):
        Exception.__init__(self, cls, info)
        self.cls = cls
        self.info = info


class ReturnSig(Exception):
    def __init__(self, val):
        self.val = val


class BreakSig(Exception):
    pass


class ContinueSig(Exception):
    pass


class PathEnd(Exception):
    """Path cut (after a loop body re-established the invariant, or infeasible)."""
    def __init__(self, why=''):
        self.why = why


class OutOfReach(Exception):
    """Construct outside the supported subset: the function cannot be verified."""
    pass
