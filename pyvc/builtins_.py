"""Built-in functions, operators and container methods over symbolic values."""
import ast
import z3
from fractions import Fraction

from .values import *

MUTATORS = {'append', 'add', 'extend', 'update', 'pop', 'remove', 'insert', 'discard', 'clear'}


def is_immutable_container(v):
    return isinstance(v, ZV) and isinstance(v.kind, tuple) and v.kind[0] in ('seq', 'set')


def is_seq(v):
    return isinstance(v, ZV) and isinstance(v.kind, tuple) and v.kind[0] == 'seq'


def is_set(v):
    return isinstance(v, ZV) and isinstance(v.kind, tuple) and v.kind[0] == 'set'


def is_num(v):
    return (isinstance(v, (int, Fraction)) and not isinstance(v, bool)) or \
        (isinstance(v, ZV) and v.kind in ('int', 'real'))


def mutate(R, tgt, meth, args):
    """Method call on an immutable z3 container held in a variable: returns (new value, result)."""
    k = tgt.kind
    if k[0] == 'seq':
        if meth == 'append':
            return ZV(z3.Concat(tgt.e, z3.Unit(R.z(args[0], k[1]))), k), None
        if meth == 'extend':
            sq = R.as_seq(args[0], k[1])
            return ZV(z3.Concat(tgt.e, sq[0]), k), None
        if meth == 'pop' and not args:
            n = z3.Length(tgt.e)
            if not R.choose(n > 0):
                raise PyRaise('IndexError')
            return ZV(z3.SubSeq(tgt.e, 0, n - 1), k), R.wrap(tgt.e[n - 1], k[1])
    if k[0] == 'set':
        if meth == 'add':
            return ZV(z3.SetAdd(tgt.e, R.z(args[0], k[1])), k), None
        if meth in ('discard',):
            return ZV(z3.SetDel(tgt.e, R.z(args[0], k[1])), k), None
        if meth == 'remove':
            x = R.z(args[0], k[1])
            if not R.choose(z3.IsMember(x, tgt.e)):
                raise PyRaise('KeyError')
            return ZV(z3.SetDel(tgt.e, x), k), None
        if meth == 'update':
            o = to_set(R, args[0], k[1])
            return ZV(z3.SetUnion(tgt.e, o), k), None
    raise OutOfReach('mutator %s on %r' % (meth, k))


def to_set(R, v, ek=None):
    if is_set(v):
        return v.e
    if is_seq(v):
        # set(seq): the members of the sequence, as a lambda set over z3's sequence `Contains`
        k = z3.FreshConst(R.S.sort_of(v.kind[1]), 'sm')
        sp = getattr(R.w, 'seq_in_spec', {}).get(v.kind[1])
        if sp is not None:
            return z3.Lambda([k], R.call_spec(R.w.specs[sp], [v, ZV(k, v.kind[1])]).e)
        return z3.Lambda([k], z3.Contains(v.e, z3.Unit(k)))
    items = R.concrete_items(v)
    if items is not None:
        if ek is None:
            ek = R.kind_of(items[0])
        return R.z(TupleV(items), ('set', ek))
    raise OutOfReach('to_set %r' % (v,))


# --------------------------------------------------------------------------- arithmetic
def pyfloordiv(a, b):
    return z3.If(b > 0, a / b, (-a) / (-b))


def binop(R, op, a, b):
    if isinstance(a, bool):
        a = int(a)
    if isinstance(b, bool):
        b = int(b)
    # concrete
    if isinstance(a, (int, Fraction)) and isinstance(b, (int, Fraction)):
        try:
            if isinstance(op, ast.Add):
                return a + b
            if isinstance(op, ast.Sub):
                return a - b
            if isinstance(op, ast.Mult):
                return a * b
            if isinstance(op, ast.FloorDiv):
                return a // b
            if isinstance(op, ast.Mod):
                return a % b
            if isinstance(op, ast.Pow):
                if isinstance(b, int) and b >= 0:
                    return a ** b
                raise OutOfReach('concrete power with negative/fractional exponent')
            if isinstance(op, ast.Div):
                if isinstance(a, Fraction) or isinstance(b, Fraction):
                    return Fraction(a) / b
                raise OutOfReach('float division')
        except ZeroDivisionError:
            raise PyRaise('ZeroDivisionError')
    if isinstance(a, str) and isinstance(b, str) and isinstance(op, ast.Add):
        return a + b
    if isinstance(a, str) and isinstance(op, ast.Mod):
        return a   # message formatting: text is not modelled
    if is_num(a) and is_num(b):
        ka = 'real' if (isinstance(a, Fraction) or (isinstance(a, ZV) and a.kind == 'real')) else 'int'
        kb = 'real' if (isinstance(b, Fraction) or (isinstance(b, ZV) and b.kind == 'real')) else 'int'
        k = 'real' if 'real' in (ka, kb) else 'int'
        x, y = R.z(a, k), R.z(b, k)
        if isinstance(op, ast.Add):
            return ZV(x + y, k)
        if isinstance(op, ast.Sub):
            return ZV(x - y, k)
        if isinstance(op, ast.Mult):
            if getattr(R.w, 'uf_mul', False) and not z3.is_int_value(z3.simplify(x)) and \
                    not z3.is_rational_value(z3.simplify(x)) and not z3.is_int_value(z3.simplify(y)) and \
                    not z3.is_rational_value(z3.simplify(y)):
                # product of two symbolic numbers as an uninterpreted function (sound over-approximation:
                # only congruence is used); avoids non-linear arithmetic in the solver
                srt = z3.RealSort() if k == 'real' else z3.IntSort()
                return ZV(z3.Function('mul_' + k, srt, srt, srt)(x, y), k)
            return ZV(x * y, k)
        if isinstance(op, ast.FloorDiv) and k == 'int':
            if not R.total_access and not R.choose(y != 0):
                raise PyRaise('ZeroDivisionError')
            return ZV(pyfloordiv(x, y), 'int')
        if isinstance(op, ast.Mod) and k == 'int':
            if not R.total_access and not R.choose(y != 0):
                raise PyRaise('ZeroDivisionError')
            return ZV(x - y * pyfloordiv(x, y), 'int')
        if isinstance(op, ast.Div) and k == 'real':
            if not R.total_access and not R.choose(y != 0):
                raise PyRaise('ZeroDivisionError')
            if getattr(R.w, 'uf_mul', False) and not z3.is_rational_value(z3.simplify(y)) and \
                    not z3.is_int_value(z3.simplify(y)):
                # division by a symbolic number as an uninterpreted function (see uf_mul)
                return ZV(z3.Function('div_real', z3.RealSort(), z3.RealSort(), z3.RealSort())(x, y), 'real')
            return ZV(x / y, 'real')
        if isinstance(op, ast.Pow) and isinstance(b, int) and b >= 0:
            r = z3.IntVal(1) if k == 'int' else z3.RealVal(1)
            for _ in range(b):
                r = r * x
            return ZV(r, k)
        if isinstance(op, ast.Pow) and 'pow_spec' in R.w.specs:
            # x ** n with a symbolic exponent: the spec function pow_spec (left to the plan's spec module)
            return R.call_spec(R.w.specs['pow_spec'], [ZV(R.z(a, 'real'), 'real'), ZV(R.z(b, 'real'), 'real')])
        raise OutOfReach('numeric op %s on %s,%s' % (type(op).__name__, ka, kb))
    # sequences
    if isinstance(op, ast.Add):
        ca, cb = R.concrete_items(a), R.concrete_items(b)
        if ca is not None and cb is not None and not isinstance(a, RangeV):
            return ListV(ca + cb) if isinstance(a, ListV) else TupleV(ca + cb)
        sa = R.as_seq(a)
        sb = R.as_seq(b, sa[1] if sa else None)
        if sa is None and sb is not None:
            sa = R.as_seq(a, sb[1])
        if sa is not None and sb is not None:
            return ZV(z3.Concat(sa[0], sb[0]), ('seq', sa[1]))
        if is_set(a) and R.concrete_items(b) == []:
            return a
        if is_set(a) and is_set(b):
            # tuple concatenation of two tuples abstracted as sets
            return ZV(z3.SetUnion(a.e, b.e), a.kind)
        if is_set(a):
            return ZV(z3.SetUnion(a.e, to_set(R, b, a.kind[1])), a.kind)
        if is_set(b):
            return ZV(z3.SetUnion(to_set(R, a, b.kind[1]), b.e), b.kind)
    if isinstance(op, ast.Sub) and is_set(a) and is_set(b):
        return ZV(z3.SetDifference(a.e, b.e), a.kind)
    if isinstance(op, ast.BitOr) and is_set(a) and is_set(b):
        return ZV(z3.SetUnion(a.e, b.e), a.kind)
    if isinstance(op, ast.BitAnd) and is_set(a) and is_set(b):
        return ZV(z3.SetIntersect(a.e, b.e), a.kind)
    # operator overloading on modelled classes
    names = {ast.Add: '__add__', ast.Sub: '__sub__', ast.Mult: '__mul__', ast.Div: '__truediv__',
             ast.Pow: '__pow__', ast.Mod: '__mod__'}
    nm = names.get(type(op))
    if nm and (isinstance(a, ObjV) or (isinstance(a, ZV) and isinstance(a.kind, str))):
        return R.dunder_call(a, nm, [b])
    raise OutOfReach('binop %s on %r, %r' % (type(op).__name__, a, b))


# --------------------------------------------------------------------------- comparison
def seq_equal_ok(R, k):
    """Whether z3 equality on kind k coincides with Python == (structural __eq__)."""
    if k in R.w.struct_eq_kinds:
        return True
    if isinstance(k, tuple) and k[0] in ('seq', 'set', 'opt'):
        return seq_equal_ok(R, k[1])
    if isinstance(k, tuple) and k[0] == 'tuple':
        return all(seq_equal_ok(R, x) for x in k[1])
    return False


def py_eq(R, a, b):
    """Python `a == b` as a z3 Bool / python bool."""
    if isinstance(a, IdV) or isinstance(b, IdV):
        if not (isinstance(a, IdV) and isinstance(b, IdV)):
            raise OutOfReach('identity compared with non-identity')
        same = z3.Bool(R.fresh_name('same_id'))
        ka, kb = R.kind_of(a.of), R.kind_of(b.of)
        if ka != kb:
            return False
        R.assume(z3.Implies(same, R.z(a.of) == R.z(b.of)))
        return same
    if isinstance(a, TagV) or isinstance(b, TagV):
        return tag_eq(R, a, b)
    if isinstance(a, MapV) and isinstance(b, MapV):
        if (a.kkind, a.vkind) != (b.kkind, b.vkind):
            return False
        if not R.spec_mode and not (seq_equal_ok(R, a.kkind) and seq_equal_ok(R, a.vkind)):
            raise OutOfReach('== on maps without structural __eq__ on keys/values')
        return a.arr == b.arr      # absent keys are `none`, so equal maps have equal arrays
    if a is None or b is None:
        if a is None and b is None:
            return True
        o = b if a is None else a
        if isinstance(o, OptV):
            return o.isnone
        return False
    if isinstance(a, OptV) or isinstance(b, OptV):
        if isinstance(a, OptV) and isinstance(b, OptV):
            inner = py_eq(R, a.val, b.val)
            inner = z3.BoolVal(inner) if isinstance(inner, bool) else inner
            return z3.Or(z3.And(a.isnone, b.isnone), z3.And(z3.Not(a.isnone), z3.Not(b.isnone), inner))
        o, x = (a, b) if isinstance(a, OptV) else (b, a)
        inner = py_eq(R, o.val, x)
        inner = z3.BoolVal(inner) if isinstance(inner, bool) else inner
        return z3.And(z3.Not(o.isnone), inner)
    if isinstance(a, (bool, int, str, Fraction)) and isinstance(b, (bool, int, str, Fraction)):
        return a == b
    for x, y in ((a, b), (b, a)):
        if isinstance(x, (bool, int, str, Fraction)) and isinstance(y, ZV) and y.kind in ('int', 'bool', 'str', 'real'):
            kx = R.kind_of(x)
            if kx == y.kind or {kx, y.kind} == {'int', 'real'}:
                k = 'real' if 'real' in (kx, y.kind) else kx
                return R.z(x, k) == R.z(y, k)
            if {kx, y.kind} == {'int', 'bool'}:
                return R.z(x, 'int') == (z3.If(y.e, 1, 0) if y.kind == 'bool' else y.e) if kx == 'int' else \
                    z3.If(R.z(x, 'bool'), 1, 0) == y.e
            return False
    if isinstance(a, (ExcClassV,)) and isinstance(b, ExcClassV):
        return a.name == b.name
    # user classes with __eq__
    for x, y in ((a, b), (b, a)):
        ci = None
        if isinstance(x, ObjV):
            ci = x.cls
        elif isinstance(x, ZV) and isinstance(x.kind, str) and (x.kind in R.S.adts or x.kind in R.S.records):
            ci = R.class_for_kind(x.kind)
        if ci is not None:
            if R.spec_mode:
                ky = R.kind_of(y)
                if ky != R.kind_of(x):
                    return False
                return R.z(x) == R.z(y)
            m = R.find_method(ci, '__eq__')
            if m is None:
                raise OutOfReach('== on %s without __eq__ (identity semantics)' % ci.qualname)
            r = R.call(BoundV(x, R.method_value(ci, m[0], m[1])), [y], {})
            return R.truth(r)
    ca, cb = R.concrete_items(a), R.concrete_items(b)
    if ca is not None and cb is not None:
        if len(ca) != len(cb):
            return False
        res = True
        for x, y in zip(ca, cb):
            e = py_eq(R, x, y)
            if e is False:
                return False
            if e is not True:
                res = e if res is True else z3.And(res, e)
        return res
    if isinstance(a, (ZV, TupleV, ListV, tuple)) and isinstance(b, (ZV, TupleV, ListV, tuple)):
        ka = a.kind if isinstance(a, ZV) else None
        kb = b.kind if isinstance(b, ZV) else None
        k = ka or kb
        if k is None:
            raise OutOfReach('== on %r %r' % (a, b))
        if isinstance(k, tuple) and k[0] == 'set' and not R.spec_mode:
            # tuples abstracted as sets: tuple equality implies set equality, not conversely
            eq = z3.Bool(R.fresh_name('tuple_eq'))
            R.assume(z3.Implies(eq, R.z(a, k) == R.z(b, k)))
            return eq
        if not R.spec_mode and not seq_equal_ok(R, k):
            raise OutOfReach('== on kind %r without structural __eq__ contract' % (k,))
        if ka is not None and kb is not None and ka != kb:
            if {ka, kb} == {'int', 'real'}:
                return R.z(a, 'real') == R.z(b, 'real')
            if ka in ('int', 'real', 'bool', 'str') or kb in ('int', 'real', 'bool', 'str'):
                return False
        return R.z(a, k) == R.z(b, k)
    raise OutOfReach('== on %r, %r' % (a, b))


def tag_eq(R, a, b):
    if isinstance(a, TagV) and isinstance(b, TagV):
        if a.adt is not b.adt:
            raise OutOfReach('tags of different ADTs')
        return tag_int(a) == tag_int(b)
    t, c = (a, b) if isinstance(a, TagV) else (b, a)
    if isinstance(c, int):
        for ct in t.adt.ctors:
            if ct.tag == c:
                return ct.rec(t.of.e)
        return False
    if isinstance(c, ZV) and c.kind == 'int':
        return tag_int(t) == c.e
    raise OutOfReach('tag compared with %r' % (c,))


def tag_int(t):
    cs = t.adt.ctors
    e = z3.IntVal(cs[-1].tag)
    for c in reversed(cs[:-1]):
        e = z3.If(c.rec(t.of.e), z3.IntVal(c.tag), e)
    return e


def as_map(R, v):
    """The finite map behind a dict-like value (MapV, or a UserDict record through its `data`)."""
    if isinstance(v, MapV):
        return v
    if isinstance(v, ObjV) and isinstance(v.fields.get('data'), MapV):
        return v.fields['data']
    if isinstance(v, ZV) and isinstance(v.kind, str) and v.kind in R.S.records:
        r = R.S.records[v.kind]
        if any(f == 'data' for f, _ in r.fields):
            R.S.record_sort(v.kind)
            return R.wrap(r.acc['data'](v.e), r.field_kind('data'))
    return None


def contains(R, x, c):
    """Python `x in c`."""
    if isinstance(c, OptV):
        if not R.total_access and R.choose(c.isnone):
            raise PyRaise('TypeError', 'argument of type NoneType is not iterable')
        c = c.val
    m = as_map(R, c)
    if m is not None:
        return R.map_has(m, x)
    if is_set(c):
        return z3.IsMember(R.z(x, c.kind[1]), c.e)
    if is_seq(c):
        if not R.spec_mode and not seq_equal_ok(R, c.kind[1]):
            raise OutOfReach('`in` on seq of %r without structural __eq__' % (c.kind[1],))
        sp = getattr(R.w, 'seq_in_spec', {}).get(c.kind[1])
        if sp is not None:
            # membership as a recursive spec function of the plan (z3's sequence `Contains` over non-character
            # elements answers `unknown` even on `xs[i] == x ==> Contains(xs, [x])`)
            return R.call_spec(R.w.specs[sp], [c, x]).e
        return z3.Contains(c.e, z3.Unit(R.z(x, c.kind[1])))
    if isinstance(c, MapV):
        return R.map_has(c, x)
    if isinstance(c, DictV):
        if c.memo is not None or isinstance(x, (IdV, TupleV)):
            return z3.Bool(R.fresh_name('in_memo'))
        if isinstance(x, (str, int)):
            return x in c.items
        raise OutOfReach('in on dict with symbolic key')
    items = R.concrete_items(c)
    if items is not None:
        res = False
        for y in items:
            e = py_eq(R, x, y)
            if e is True:
                return True
            if e is not False:
                res = e if res is False else z3.Or(res, e)
        return res
    if isinstance(c, OptV):
        raise OutOfReach('in on optional')
    raise OutOfReach('in on %r' % (c,))


def compare(R, op, a, b):
    if isinstance(op, ast.Eq):
        r = py_eq(R, a, b)
    elif isinstance(op, ast.NotEq):
        r = py_eq(R, a, b)
        r = (not r) if isinstance(r, bool) else z3.Not(r)
    elif isinstance(op, ast.Is) or isinstance(op, ast.IsNot):
        if (isinstance(a, bool) or isinstance(b, bool)) and not (a is None or b is None) and \
                not (isinstance(a, bool) and isinstance(b, bool)):
            # `x is True` / `x is False`: for a Boolean x this is x == True / x == False (bool values are the two
            # singletons); a symbolic value must not be compared by identity of the checker's own objects
            sym, lit = (b, a) if isinstance(a, bool) else (a, b)
            if isinstance(sym, ZV) and sym.kind == 'bool':
                r = sym.e if lit else z3.Not(sym.e)
            elif isinstance(sym, OptV):
                if isinstance(sym.val, ZV) and sym.val.kind == 'bool':
                    r = z3.And(z3.Not(sym.isnone), sym.val.e if lit else z3.Not(sym.val.e))
                else:
                    r = False
            elif isinstance(sym, (ObjV, TupleV, ListV, DictV, str, int)) or \
                    (isinstance(sym, ZV) and sym.kind != 'bool'):
                r = False
            else:
                raise OutOfReach('`is` between a Boolean literal and %r' % (sym,))
        elif a is None or b is None or isinstance(a, bool) or isinstance(b, bool):
            r = py_eq(R, a, b) if (a is None or b is None) else (a is b)
        elif isinstance(a, ObjV) and isinstance(b, ObjV):
            r = a is b
        else:
            raise OutOfReach('`is` on symbolic values')
        if isinstance(op, ast.IsNot):
            r = (not r) if isinstance(r, bool) else z3.Not(r)
    elif isinstance(op, ast.In):
        r = contains(R, a, b)
    elif isinstance(op, ast.NotIn):
        r = contains(R, a, b)
        r = (not r) if isinstance(r, bool) else z3.Not(r)
    else:
        if isinstance(a, TagV):
            a = ZV(tag_int(a), 'int')
        if isinstance(b, TagV):
            b = ZV(tag_int(b), 'int')
        if isinstance(a, (int, Fraction)) and isinstance(b, (int, Fraction)):
            r = {ast.Lt: a < b, ast.LtE: a <= b, ast.Gt: a > b, ast.GtE: a >= b}[type(op)]
        elif is_num(a) and is_num(b):
            k = 'real' if any(isinstance(x, Fraction) or (isinstance(x, ZV) and x.kind == 'real') for x in (a, b)) \
                else 'int'
            x, y = R.z(a, k), R.z(b, k)
            r = {ast.Lt: x < y, ast.LtE: x <= y, ast.Gt: x > y, ast.GtE: x >= y}[type(op)]
        else:
            names = {ast.Lt: '__lt__', ast.LtE: '__le__', ast.Gt: '__gt__', ast.GtE: '__ge__'}
            if isinstance(a, (ObjV, ZV)) and not is_seq(a):
                return R.dunder_call(a, names[type(op)], [b])
            raise OutOfReach('ordering on %r, %r' % (a, b))
    if isinstance(r, bool):
        return r
    return ZV(z3.simplify(r), 'bool')


# --------------------------------------------------------------------------- indexing
def norm_index(R, e_len, i):
    """Python index normalisation: negative indices count from the end."""
    return z3.If(i < 0, i + e_len, i)


def index(R, v, idx):
    if isinstance(v, DictV):
        if v.memo is not None or isinstance(idx, (IdV, TupleV)):
            return memo_read(R, v, idx)
        if isinstance(idx, (str, int)):
            if idx in v.items:
                return v.items[idx]
            raise PyRaise('KeyError')
        raise OutOfReach('dict index with symbolic key')
    if isinstance(v, ZV) and isinstance(v.kind, tuple) and v.kind[0] == 'arr':
        return R.wrap(z3.Select(v.e, R.z(idx, v.kind[1])), v.kind[2])
    if not isinstance(v, MapV) and as_map(R, v) is not None:
        v = as_map(R, v)
    if isinstance(v, MapV):
        if not R.total_access and not R.choose(R.map_has(v, idx)):
            raise PyRaise('KeyError')
        return R.map_get(v, idx)
    items = R.concrete_items(v)
    if items is not None and isinstance(idx, int):
        try:
            return items[idx]
        except IndexError:
            raise PyRaise('IndexError')
    if isinstance(v, OptV):
        if not R.total_access and R.choose(v.isnone):
            raise PyRaise('TypeError', 'None is not subscriptable')
        return index(R, v.val, idx)
    sq = R.as_seq(v)
    if sq is not None:
        e, k = sq
        if isinstance(idx, TagV):
            idx = ZV(tag_int(idx), 'int')
        i = R.z(idx, 'int')
        n = z3.Length(e)
        if R.total_access:
            if known_nonneg(R, i):
                return R.wrap(e[z3.simplify(i)], k)
            return R.wrap(e[z3.simplify(norm_index(R, n, i))], k)
        if not R.choose(z3.And(i >= -n, i < n)):
            raise PyRaise('IndexError')
        j = z3.simplify(norm_index(R, n, i))
        return R.wrap(e[j], k)
    raise OutOfReach('index on %r' % (v,))


def known_nonneg(R, e):
    e = z3.simplify(e)
    if z3.is_int_value(e):
        return e.as_long() >= 0
    return not R.feasible(e < 0)


def py_slice_bounds(n, lo, hi):
    def norm(x, default):
        if x is None:
            return default
        return z3.If(x < 0, z3.If(x + n < 0, z3.IntVal(0), x + n), z3.If(x > n, n, x))
    l = norm(lo, z3.IntVal(0))
    h = norm(hi, n)
    return l, h


def slice_(R, v, lo, hi):
    items = R.concrete_items(v)
    if items is not None and (lo is None or isinstance(lo, int)) and (hi is None or isinstance(hi, int)) \
            and not isinstance(v, RangeV):
        r = items[lo:hi]
        return ListV(r) if isinstance(v, ListV) else TupleV(r)
    sq = R.as_seq(v)
    if sq is None:
        raise OutOfReach('slice of %r' % (v,))
    e, k = sq
    n = z3.Length(e)
    clo = lo is None or (isinstance(lo, int) and not isinstance(lo, bool) and lo >= 0)
    chi = hi is None or (isinstance(hi, int) and not isinstance(hi, bool) and hi >= 0)
    if clo and chi:
        # concrete non-negative bounds: seq.extract already truncates like Python does
        a = lo or 0
        if hi is None:
            return ZV(z3.SubSeq(e, z3.IntVal(a), n - a) if a else e, ('seq', k))
        if hi <= a:
            return ZV(z3.Empty(z3.SeqSort(R.S.sort_of(k))), ('seq', k))
        return ZV(z3.SubSeq(e, z3.IntVal(a), z3.IntVal(hi - a)), ('seq', k))
    if clo and isinstance(hi, int) and not isinstance(hi, bool) and hi < 0:
        # xs[a:-k] with concrete a >= 0, k > 0: seq.extract(xs, a, n - k - a) (empty when the length is <= 0 or a > n,
        # exactly as Python)
        a = lo or 0
        return ZV(z3.SubSeq(e, z3.IntVal(a), n + hi - a), ('seq', k))
    # symbolic bounds that are provably non-negative on this path need no wrap-around encoding
    zl = None if lo is None else R.z(lo, 'int')
    zh = None if hi is None else R.z(hi, 'int')
    if (zl is None or known_nonneg(R, zl)) and (zh is None or known_nonneg(R, zh)):
        a = zl if zl is not None else z3.IntVal(0)
        if zh is None:
            return ZV(z3.SubSeq(e, a, n - a), ('seq', k))
        return ZV(z3.SubSeq(e, a, z3.If(zh - a < 0, z3.IntVal(0), zh - a)) if zl is not None
                  else z3.SubSeq(e, z3.IntVal(0), zh), ('seq', k))
    l, h = py_slice_bounds(n, zl, zh)
    ln = z3.If(h - l < 0, z3.IntVal(0), h - l)
    return ZV(z3.simplify(z3.SubSeq(e, l, ln)), ('seq', k))


def setitem(R, obj, idx, v):
    """obj[idx] = v. Returns a new value for immutable containers (caller rebinds), else None."""
    if isinstance(obj, ObjV) and isinstance(obj.fields.get('data'), MapV):
        obj = obj.fields['data']
    if isinstance(obj, DictV):
        if isinstance(idx, (IdV, TupleV)) or obj.memo is not None:
            memo_store(R, obj, idx, v)
            return None
        if isinstance(idx, (str, int)):
            obj.items[idx] = v
            return None
        raise OutOfReach('dict store with symbolic key')
    if isinstance(obj, MapV):
        R.map_set(obj, idx, v)
        return None
    if isinstance(obj, ListV) and isinstance(idx, int):
        try:
            obj.items[idx] = v
        except IndexError:
            raise PyRaise('IndexError')
        return None
    raise OutOfReach('setitem on %r' % (obj,))


# ---- identity-keyed memo tables (see DESIGN 2.2 "Object identity") ----
def _memo_args(R, key):
    parts = key.items if isinstance(key, TupleV) else [key]
    return [p.of if isinstance(p, IdV) else p for p in parts]


def _memo_owner(R):
    for fr in reversed(R.frames):
        if fr.contract is not None and fr.contract.memo is not None:
            return fr
    return None


def memo_read(R, d, key):
    fr = _memo_owner(R)
    if fr is None:
        raise OutOfReach('identity-keyed dict read outside a memo closure')
    c = fr.contract
    args = _memo_args(R, key)
    params = [a.arg for a in fr.fv.node.args.args]
    if len(args) > len(params):
        raise OutOfReach('memo key does not match closure parameters')
    values = dict(zip(params, args))
    # parameters that are not part of the key: the entry may have been stored by a call with ANY value
    # of them, so they are unknown here (a key that forgets a parameter the result depends on makes the
    # post-condition of the reading call fail)
    for p in params[len(args):]:
        values[p] = R.fresh(c.params[p], 'memo_' + p)
    for name in c.captures:
        values[name] = fr.env.lookup(name)
    result = R.fresh(c.returns, 'memo')
    values['result'] = result
    for lbl, fn in c.ensures:
        R.assume(R.tobool(R.eval_clause(c, fn, values)))
    return result


def memo_store(R, d, key, v):
    fr = _memo_owner(R)
    if fr is None:
        raise OutOfReach('identity-keyed dict store outside a memo closure')
    c = fr.contract
    d.memo = c.qualname
    args = _memo_args(R, key)
    params = [a.arg for a in fr.fv.node.args.args]
    if len(args) > len(params):
        raise OutOfReach('memo key does not match closure parameters')
    values = dict(zip(params, args))
    for p in params[len(args):]:
        values[p] = fr.env.lookup(p)      # parameters not in the key: those of the storing call
    for name in c.captures:
        values[name] = fr.env.lookup(name)
    values['result'] = v
    for lbl, fn in c.ensures:
        R.prove(R.tobool(R.eval_clause(c, fn, values)), 'memo-store:%s:%s' % (c.qualname, lbl), 'memo')


# --------------------------------------------------------------------------- attributes of builtins
def builtin_attr(R, v, attr):
    if isinstance(v, IterV):
        raise OutOfReach('attribute of generator')
    if is_seq(v) or isinstance(v, (TupleV, ListV, tuple)):
        if attr in ('append', 'extend', 'pop', 'insert', 'remove'):
            if isinstance(v, ListV):
                return BoundV(v, BuiltinV('list.' + attr, LIST_METHODS[attr]))
        if attr == 'index' or attr == 'count':
            raise OutOfReach('seq.' + attr)
    if is_set(v):
        if attr == 'issubset':
            return BoundV(v, BuiltinV('set.issubset', lambda R, a, k: ZV(z3.IsSubset(a[0].e, to_set(R, a[1], a[0].kind[1])), 'bool')))
        if attr == 'issuperset':
            return BoundV(v, BuiltinV('set.issuperset', lambda R, a, k: ZV(z3.IsSubset(to_set(R, a[1], a[0].kind[1]), a[0].e), 'bool')))
        if attr == 'union':
            return BoundV(v, BuiltinV('set.union', lambda R, a, k: ZV(z3.SetUnion(a[0].e, to_set(R, a[1], a[0].kind[1])), a[0].kind)))
        if attr == 'difference':
            return BoundV(v, BuiltinV('set.difference', lambda R, a, k: ZV(z3.SetDifference(a[0].e, to_set(R, a[1], a[0].kind[1])), a[0].kind)))
        if attr == 'intersection':
            return BoundV(v, BuiltinV('set.intersection', lambda R, a, k: ZV(z3.SetIntersect(a[0].e, to_set(R, a[1], a[0].kind[1])), a[0].kind)))
    if isinstance(v, DictV):
        if attr == 'items':
            return BoundV(v, BuiltinV('dict.items', lambda R, a, k: TupleV([TupleV([kk, vv]) for kk, vv in a[0].items.items()])))
        if attr == 'keys':
            return BoundV(v, BuiltinV('dict.keys', lambda R, a, k: TupleV(list(a[0].items.keys()))))
        if attr == 'values':
            return BoundV(v, BuiltinV('dict.values', lambda R, a, k: TupleV(list(a[0].items.values()))))
        if attr == 'get':
            def dget(R, a, k):
                d, key = a[0], a[1]
                if isinstance(key, (str, int)):
                    return d.items.get(key, a[2] if len(a) > 2 else None)
                raise OutOfReach('dict.get symbolic')
            return BoundV(v, BuiltinV('dict.get', dget))
    if isinstance(v, MapV):
        if attr == 'keys':
            return BoundV(v, BuiltinV('map.keys', lambda R, a, k: R.map_keys(a[0])))
    if isinstance(v, Fraction):
        if attr in ('numerator', 'denominator'):
            return getattr(v, attr)
    if isinstance(v, ZV) and v.kind == 'real':
        if attr == 'denominator':
            # only `== 1` tests are meaningful; represent as 1 iff integral
            return ZV(z3.If(z3.IsInt(v.e), z3.IntVal(1), z3.IntVal(2)), 'int')
        if attr == 'numerator':
            # the value itself when it is integral; an unconstrained integer otherwise
            num = z3.Function('fraction_numerator', z3.RealSort(), z3.RealSort())
            return ZV(z3.If(z3.IsInt(v.e), v.e, num(v.e)), 'real')
    if isinstance(v, str):
        if attr in ('startswith', 'endswith', 'split', 'join', 'format'):
            return BoundV(v, BuiltinV('str.' + attr, lambda R, a, k: _str_method(attr, a)))
    if isinstance(v, ExcInstV):
        return None
    if R.total_access:
        raise OutOfReach('attribute %s of %r' % (attr, v))
    raise OutOfReach('attribute %s of %r' % (attr, v))


def _str_method(attr, a):
    s = a[0]
    if all(isinstance(x, str) for x in a):
        return getattr(s, attr)(*a[1:])
    raise OutOfReach('str.%s on symbolic' % attr)


def _list_append(R, a, k):
    a[0].items.append(a[1])


def _list_extend(R, a, k):
    its = R.concrete_items(a[1])
    if its is None:
        raise OutOfReach('list.extend with symbolic sequence')
    a[0].items.extend(its)


def _list_pop(R, a, k):
    try:
        return a[0].items.pop(*a[1:])
    except IndexError:
        raise PyRaise('IndexError')


def _list_insert(R, a, k):
    if not isinstance(a[1], int):
        raise OutOfReach('list.insert symbolic index')
    a[0].items.insert(a[1], a[2])


LIST_METHODS = {'append': _list_append, 'extend': _list_extend, 'pop': _list_pop, 'insert': _list_insert}


# --------------------------------------------------------------------------- ADT construction
def construct_adt(R, adt, c, ci, args, kwargs):
    """Instantiate a leaf class of an ADT: run its __init__ symbolically on a scratch record and
    read the constructor fields from the attributes it assigned."""
    obj = ObjV(ci, {})
    m = R.find_method(ci, '__init__')
    if m is None:
        raise OutOfReach('ADT class without __init__')
    R.inline_call(R.method_value(ci, m[0], m[1]), [obj] + list(args), kwargs)
    vals = []
    for f, k in c.fields:
        if f not in obj.fields:
            raise OutOfReach('%s.__init__ did not assign %s' % (ci.qualname, f))
        vals.append(R.z(obj.fields[f], k))
    tagv = obj.fields.get(adt.tag_attr)
    if adt.tag_attr is not None and tagv != c.tag:
        raise OutOfReach('%s.__init__ assigned tag %r, model expects %r' % (ci.qualname, tagv, c.tag))
    return ZV(c.con(*vals), adt.name)


# --------------------------------------------------------------------------- comprehensions
def consume_comprehension(R, it, target):
    """Evaluate a generator/list/set comprehension.  Concrete iterables are unrolled; symbolic
    sets/sequences are summarised (filter = lambda set / map = axiomatised image)."""
    from . import loops
    return loops.comprehension(R, it, target)


# --------------------------------------------------------------------------- builtin functions
def _b_len(R, a, k):
    v = a[0]
    items = R.concrete_items(v)
    if items is not None:
        return len(items)
    if is_seq(v):
        return ZV(z3.Length(v.e), 'int')
    if isinstance(v, DictV):
        return len(v.items)
    if is_set(v):
        # only emptiness tests are supported: |S| is abstracted to 0 / positive
        n = R.fresh('int', 'card')
        R.assume(z3.And(n.e >= 0, (n.e == 0) == (v.e == z3.EmptySet(R.S.sort_of(v.kind[1])))))
        return n
    if isinstance(v, ObjV) or (isinstance(v, ZV) and isinstance(v.kind, str)):
        return R.dunder_call(v, '__len__', [])
    raise OutOfReach('len of %r' % (v,))


def _b_isinstance(R, a, k):
    v, cls = a
    classes = R.concrete_items(cls) if isinstance(cls, (TupleV, tuple)) else [cls]
    res = False
    for c in classes:
        r = _isinstance1(R, v, c)
        if r is True:
            return True
        if r is not False:
            res = r if res is False else z3.Or(res, r)
    return res if isinstance(res, bool) else ZV(res, 'bool')


def _isinstance1(R, v, c):
    if isinstance(v, OptV):
        inner = _isinstance1(R, v.val, c)
        if inner is False:
            return False
        if inner is True:
            return z3.Not(v.isnone)
        return z3.And(z3.Not(v.isnone), inner)
    if isinstance(c, BuiltinV):
        nm = c.name
        if nm == 'int':
            return (isinstance(v, int)) or (isinstance(v, ZV) and v.kind in ('int', 'bool'))
        if nm == 'bool':
            return isinstance(v, bool) or (isinstance(v, ZV) and v.kind == 'bool')
        if nm == 'str':
            return isinstance(v, str) or (isinstance(v, ZV) and v.kind == 'str')
        if nm == 'tuple':
            return isinstance(v, (tuple, TupleV)) or is_set(v) or is_seq(v)
        if nm == 'list':
            return isinstance(v, ListV) or is_seq(v)
        if nm == 'dict':
            return isinstance(v, (DictV, MapV))
        if nm == 'set':
            return is_set(v)
        if nm == 'Fraction':
            return isinstance(v, Fraction) or (isinstance(v, ZV) and v.kind == 'real')
        if nm == 'float':
            return False
        raise OutOfReach('isinstance with builtin %s' % nm)
    if isinstance(c, ClassV):
        q = c.info.qualname
        vk = None
        if isinstance(v, ObjV):
            cur = v.cls
            return _is_subclass(R, cur, q)
        if isinstance(v, ZV) and isinstance(v.kind, str):
            if v.kind in R.S.adts:
                adt = R.S.adts[v.kind]
                if adt.base_class == q:
                    return True
                cts = [c2 for c2 in adt.ctors if c2.pyclass == q]
                if len(cts) == 1:
                    return cts[0].rec(v.e)
                if cts:
                    return z3.Or(*[c2.rec(v.e) for c2 in cts])
                return False
            if v.kind in R.S.records:
                return _is_subclass(R, R.class_info(R.S.records[v.kind].pyclass), q)
        return False
    if isinstance(c, ExcClassV):
        return isinstance(v, ExcInstV) and R.w.is_subclass_exc(v.cls, c.name)
    raise OutOfReach('isinstance with %r' % (c,))


def _is_subclass(R, ci, q):
    if ci.qualname == q:
        return True
    for b in ci.bases:
        bc = R.resolve_class_name(ci.module, b)
        if bc is not None and _is_subclass(R, bc, q):
            return True
    return False


def _b_tuple(R, a, k):
    if not a:
        return TupleV([])
    v = a[0]
    if isinstance(v, IterV):
        return consume_comprehension(R, v, 'tuple')
    items = R.concrete_items(v)
    if items is not None:
        return TupleV(items)
    if is_seq(v) or is_set(v):
        return v
    raise OutOfReach('tuple(%r)' % (v,))


def _b_list(R, a, k):
    if not a:
        return ListV([])
    v = a[0]
    if isinstance(v, IterV):
        return consume_comprehension(R, v, 'list')
    items = R.concrete_items(v)
    if items is not None:
        return ListV(items)
    if is_seq(v) or is_set(v):
        return v
    raise OutOfReach('list(%r)' % (v,))


def _b_set(R, a, k):
    if not a:
        return EmptySetV()
    v = a[0]
    if isinstance(v, IterV):
        return consume_comprehension(R, v, 'set')
    if is_set(v):
        return v
    items = R.concrete_items(v)
    if items is not None and items:
        kk = R.kind_of(items[0])
        return ZV(R.z(TupleV(items), ('set', kk)), ('set', kk))
    if is_seq(v) and (R.spec_mode or seq_equal_ok(R, v.kind[1])):
        # set(xs) for a symbolic sequence: its members (z3 `Contains`), order and multiplicity dropped
        return ZV(to_set(R, v), ('set', v.kind[1]))
    raise OutOfReach('set(%r)' % (v,))


class EmptySetV(V):
    """set() whose element kind is not known yet."""
    pass


def _b_dict(R, a, k):
    if a:
        raise OutOfReach('dict(args)')
    d = DictV()
    d.items.update(k)
    return d


def _b_any(R, a, k):
    v = a[0]
    if isinstance(v, IterV):
        from . import loops
        return loops.quantify(R, v, 'any')
    items = R.concrete_items(v)
    if items is None:
        raise OutOfReach('any(%r)' % (v,))
    res = False
    for x in items:
        t = R.truth(x)
        if t is True:
            return True
        if t is not False:
            res = t if res is False else z3.Or(res, t)
    return res if isinstance(res, bool) else ZV(res, 'bool')


def _b_all(R, a, k):
    v = a[0]
    if isinstance(v, IterV):
        from . import loops
        return loops.quantify(R, v, 'all')
    items = R.concrete_items(v)
    if items is None:
        raise OutOfReach('all(%r)' % (v,))
    res = True
    for x in items:
        t = R.truth(x)
        if t is False:
            return False
        if t is not True:
            res = t if res is True else z3.And(res, t)
    return res if isinstance(res, bool) else ZV(res, 'bool')


def _b_range(R, a, k):
    if len(a) == 1:
        return RangeV(0, a[0])
    if len(a) == 2:
        return RangeV(a[0], a[1])
    return RangeV(a[0], a[1], a[2])


def _b_min(R, a, k):
    if len(a) == 1:
        items = R.concrete_items(a[0])
        if items is None:
            raise OutOfReach('min of symbolic sequence')
        a = items
    r = a[0]
    for x in a[1:]:
        c = compare(R, ast.Lt(), x, r)
        if isinstance(c, bool):
            r = x if c else r
        else:
            kk = 'real' if 'real' in (R.kind_of(x), R.kind_of(r)) else 'int'
            r = ZV(z3.If(c.e, R.z(x, kk), R.z(r, kk)), kk)
    return r


def _b_max(R, a, k):
    if len(a) == 1:
        items = R.concrete_items(a[0])
        if items is None:
            raise OutOfReach('max of symbolic sequence')
        a = items
    r = a[0]
    for x in a[1:]:
        c = compare(R, ast.Gt(), x, r)
        if isinstance(c, bool):
            r = x if c else r
        else:
            kk = 'real' if 'real' in (R.kind_of(x), R.kind_of(r)) else 'int'
            r = ZV(z3.If(c.e, R.z(x, kk), R.z(r, kk)), kk)
    return r


def _b_abs(R, a, k):
    v = a[0]
    if isinstance(v, (int, Fraction)):
        return abs(v)
    if isinstance(v, ZV) and v.kind in ('int', 'real'):
        return ZV(z3.If(v.e < 0, -v.e, v.e), v.kind)
    return R.dunder_call(v, '__abs__', [])


def _b_int(R, a, k):
    v = a[0]
    if isinstance(v, int):
        return int(v)
    if isinstance(v, ZV) and v.kind == 'int':
        return v
    if isinstance(v, ZV) and v.kind == 'bool':
        return ZV(z3.If(v.e, 1, 0), 'int')
    if isinstance(v, ZV) and v.kind == 'real':
        # int() truncates toward zero
        return ZV(z3.If(v.e >= 0, z3.ToInt(v.e), -z3.ToInt(-v.e)), 'int')
    if isinstance(v, Fraction):
        return int(v)
    raise OutOfReach('int(%r)' % (v,))


def _b_bool(R, a, k):
    t = R.truth(a[0])
    return t if isinstance(t, bool) else ZV(t, 'bool')


def _b_str(R, a, k):
    if a and isinstance(a[0], (str, int)):
        return str(a[0])
    return '<str>'     # text of messages is not modelled (DESIGN 2.2 item 2)


def _b_id(R, a, k):
    return IdV(a[0])


def _b_hasattr(R, a, k):
    if isinstance(a[1], str) and a[1] in ('_hash_val',):
        return ZV(z3.Bool(R.fresh_name('has_hash')), 'bool')
    v = a[0]
    if isinstance(v, ObjV):
        return a[1] in v.fields or R.find_method(v.cls, a[1]) is not None
    raise OutOfReach('hasattr')


def _b_reversed(R, a, k):
    items = R.concrete_items(a[0])
    if items is not None:
        return TupleV(list(reversed(items)))
    if is_seq(a[0]) and isinstance(a[0].kind[1], str) and ('rev_' + a[0].kind[1]) in R.w.specs:
        return R.call_spec(R.w.specs['rev_' + a[0].kind[1]], [a[0]])
    return RevV(a[0])


def _b_enumerate(R, a, k):
    items = R.concrete_items(a[0])
    start = a[1] if len(a) > 1 else k.get('start', 0)
    if items is not None and isinstance(start, int):
        return TupleV([TupleV([i + start, x]) for i, x in enumerate(items)])
    return EnumV(a[0], start)


def _b_zip(R, a, k):
    cs = [R.concrete_items(x) for x in a]
    if all(c is not None for c in cs):
        return TupleV([TupleV(list(t)) for t in zip(*cs)])
    return ZipV(list(a))


def _b_sum(R, a, k):
    items = R.concrete_items(a[0]) if not isinstance(a[0], IterV) else None
    if isinstance(a[0], IterV):
        items = R.concrete_items(consume_comprehension(R, a[0], 'list'))
    if items is None:
        raise OutOfReach('sum of symbolic sequence')
    r = a[1] if len(a) > 1 else 0
    for x in items:
        r = binop(R, ast.Add(), r, x)
    return r


def _b_sorted(R, a, k):
    raise OutOfReach('sorted')


def _b_print(R, a, k):
    return None


def _b_hash(R, a, k):
    raise OutOfReach('hash')


def _b_type(R, a, k):
    return '<type>'


def _b_copy(R, a, k):
    v = a[0]
    if isinstance(v, ZV):
        if isinstance(v.kind, str) and (v.kind in R.S.adts):
            return v
        return v
    if isinstance(v, ListV):
        return ListV(list(v.items))
    if isinstance(v, DictV):
        d = DictV()
        d.items = dict(v.items)
        return d
    if isinstance(v, MapV):
        return MapV(v.arr, v.kkind, v.vkind)
    if isinstance(v, ObjV):
        m = R.find_method(v.cls, '__copy__')
        if m is not None:
            return R.call(BoundV(v, R.method_value(v.cls, m[0], m[1])), [], {})
        return ObjV(v.cls, dict(v.fields))
    if isinstance(v, (TupleV, tuple, int, str)) or v is None:
        return v
    raise OutOfReach('copy of %r' % (v,))


def _b_Fraction(R, a, k):
    if len(a) == 1:
        v = a[0]
        if isinstance(v, (int, Fraction)):
            return Fraction(v)
        if isinstance(v, ZV) and v.kind == 'int':
            return ZV(z3.ToReal(v.e), 'real')
        if isinstance(v, ZV) and v.kind == 'real':
            return v
    if len(a) == 2:
        n, d = a
        if isinstance(n, int) and isinstance(d, int):
            if d == 0:
                raise PyRaise('ZeroDivisionError')
            return Fraction(n, d)
        dn = R.z(d, 'real')
        if not R.choose(dn != 0):
            raise PyRaise('ZeroDivisionError')
        return ZV(R.z(n, 'real') / dn, 'real')
    raise OutOfReach('Fraction(...)')


def _b_gcd(R, a, k):
    x, y = a
    if isinstance(x, int) and isinstance(y, int):
        import math
        return math.gcd(x, y)
    if 'gcd' in R.w.specs:
        return R.call_spec(R.w.specs['gcd'], [x, y])
    raise OutOfReach('math.gcd symbolic without spec')


def _b_requires(R, a, k):
    cl = R.tobool(a[0])
    if getattr(R, 'lemma_use', 0):
        R.prove(cl, 'lemma-pre', 'pre')
    else:
        R.assume(cl)


def _b_ensures(R, a, k):
    cl = R.tobool(a[0])
    if getattr(R, 'lemma_use', 0):
        R.assume(cl)
    else:
        R.prove(cl, 'ensures', 'post')


def _b_decreases(R, a, k):
    m = R.measure_list(a[0] if len(a) == 1 else TupleV(list(a)))
    if getattr(R, 'lemma_use', 0):
        old = R.lemma_measure
        if old is None:
            raise OutOfReach('recursive lemma use without decreases in the lemma under proof')
        R.prove(R.measure_less(m, old), 'lemma-decreases', 'decr')
    else:
        R.lemma_measure = m


def _b_implies(R, a, k):
    return ZV(z3.Implies(R.tobool(a[0]), R.tobool(a[1])), 'bool')


def _b_iff(R, a, k):
    return ZV(R.tobool(a[0]) == R.tobool(a[1]), 'bool')


def _b_ite(R, a, k):
    c = R.tobool(a[0])
    kk = R.kind_of(a[1])
    if kk == 'none' or isinstance(a[1], (int, bool, str)):
        kk = R.kind_of(a[2]) if isinstance(a[2], ZV) else kk
    return R.wrap(z3.If(c, R.z(a[1], kk), R.z(a[2], kk)), kk)


def _setval(R, x, ek='Term'):
    if is_set(x):
        return x
    if isinstance(x, EmptySetV):
        return ZV(z3.EmptySet(R.S.sort_of(ek)), ('set', ek))
    items = R.concrete_items(x)
    if items is not None:
        if items:
            ek = R.kind_of(items[0])
        return ZV(R.z(TupleV(items), ('set', ek)), ('set', ek))
    raise OutOfReach('as_set(%r)' % (x,))


def _b_as_set(R, a, k):
    return _setval(R, a[0], a[1] if len(a) > 1 else 'Term')


def _b_set_remove(R, a, k):
    s = _setval(R, a[0])
    return ZV(z3.SetDel(s.e, R.z(a[1], s.kind[1])), s.kind)


def _b_set_union(R, a, k):
    s = _setval(R, a[0])
    t = _setval(R, a[1], s.kind[1])
    return ZV(z3.SetUnion(s.e, t.e), s.kind)


def _b_subset(R, a, k):
    s = _setval(R, a[0])
    t = _setval(R, a[1], s.kind[1])
    return ZV(z3.IsSubset(s.e, t.e), 'bool')


def _b_member(R, a, k):
    s = _setval(R, a[1], R.kind_of(a[0]))
    return ZV(z3.IsMember(R.z(a[0], s.kind[1]), s.e), 'bool')


def _b_seq_map(R, a, k):
    """seq_map(f, xs, *extras) == [f(x, *extras) for x in xs] for a spec function f."""
    f = a[0]
    if not isinstance(f, SpecFnV):
        raise OutOfReach('seq_map needs a spec function')
    mf = R.w.map_fn(f.name)
    return R.call_spec(mf, list(a[1:]))


def _b_mk_tconst(R, a, k):
    """mk_tconst(name, args) == TConst(name, *args) for a symbolic argument sequence."""
    adt = R.S.adts['Type']
    c = adt.ctor('TConst')
    return ZV(c.con(R.z(a[0], 'str'), R.z(a[1], ('seq', 'Type'))), 'Type')


def _b_forall(R, a, k):
    """forall(kind, lambda x: body): universally quantified formula (specifications only)."""
    kind, fn = a
    from .world import parse_kind
    kind = parse_kind(kind)
    x = R.fresh(kind, '_all')
    body = R.tobool(R.call(fn, [x], {}))
    consts = []
    _collect_leaf_consts(R, x, consts)
    return ZV(z3.ForAll(consts, body), 'bool')


def _b_exists(R, a, k):
    """exists(kind, lambda x: body): existentially quantified formula (specifications only)."""
    kind, fn = a
    from .world import parse_kind
    kind = parse_kind(kind)
    x = R.fresh(kind, '_ex')
    body = R.tobool(R.call(fn, [x], {}))
    consts = []
    _collect_leaf_consts(R, x, consts)
    return ZV(z3.Exists(consts, body), 'bool')


def _collect_leaf_consts(R, v, out):
    if isinstance(v, ZV):
        out.append(v.e)
    elif isinstance(v, TupleV):
        for x in v.items:
            _collect_leaf_consts(R, x, out)
    elif isinstance(v, MapV):
        out.append(v.arr)
    elif isinstance(v, OptV):
        out.append(v.isnone)
        _collect_leaf_consts(R, v.val, out)
    else:
        raise OutOfReach('quantification over %r' % (v,))


def _b_lemma_forall(R, a, k):
    """lemma_forall(lem): assume the proved lemma `lem` universally (hint clauses only)."""
    from .interp import LemmaV
    if not isinstance(a[0], LemmaV):
        raise OutOfReach('lemma_forall needs a lemma')
    R.use_lemma_forall(a[0].name)


def _b_arr_lambda(R, a, k):
    """arr_lambda(f, a1, .., an): the total function  x |-> f(a1, .., an, x)  for a spec function f."""
    f = a[0]
    if not isinstance(f, SpecFnV):
        raise OutOfReach('arr_lambda needs a spec function')
    xk = f.pkinds[-1]
    x = z3.Const(R.fresh_name('_lx'), R.S.sort_of(xk))
    body = R.call_spec(f, list(a[1:]) + [ZV(x, xk)])
    return ZV(z3.Lambda([x], R.z(body, f.rkind)), ('arr', xk, f.rkind))


def _b_empty_set(R, a, k):
    ek = a[0] if a else 'Term'
    return ZV(z3.EmptySet(R.S.sort_of(ek)), ('set', ek))


def mk(name, fn):
    return BuiltinV(name, fn)


BUILTINS = {
    'len': mk('len', _b_len), 'isinstance': mk('isinstance', _b_isinstance), 'tuple': mk('tuple', _b_tuple),
    'list': mk('list', _b_list), 'set': mk('set', _b_set), 'dict': mk('dict', _b_dict),
    'any': mk('any', _b_any), 'all': mk('all', _b_all), 'range': mk('range', _b_range),
    'min': mk('min', _b_min), 'max': mk('max', _b_max), 'abs': mk('abs', _b_abs), 'int': mk('int', _b_int),
    'bool': mk('bool', _b_bool), 'str': mk('str', _b_str), 'id': mk('id', _b_id),
    'hasattr': mk('hasattr', _b_hasattr), 'reversed': mk('reversed', _b_reversed),
    'enumerate': mk('enumerate', _b_enumerate), 'zip': mk('zip', _b_zip), 'sum': mk('sum', _b_sum),
    'sorted': mk('sorted', _b_sorted), 'print': mk('print', _b_print), 'hash': mk('hash', _b_hash),
    'type': mk('type', _b_type), 'repr': mk('repr', _b_str), 'float': mk('float', None),
    'NotImplemented': None, 'True': True, 'False': False, 'None': None,
    'requires': mk('requires', _b_requires), 'ensures': mk('ensures', _b_ensures),
    'decreases': mk('decreases', _b_decreases), 'implies': mk('implies', _b_implies),
    'iff': mk('iff', _b_iff), 'ite': mk('ite', _b_ite),
    'as_set': mk('as_set', _b_as_set), 'set_remove': mk('set_remove', _b_set_remove),
    'set_union': mk('set_union', _b_set_union), 'subset': mk('subset', _b_subset),
    'member': mk('member', _b_member), 'empty_set': mk('empty_set', _b_empty_set),
    'seq_map': mk('seq_map', _b_seq_map), 'mk_tconst': mk('mk_tconst', _b_mk_tconst),
    'arr_lambda': mk('arr_lambda', _b_arr_lambda), 'forall': mk('forall', _b_forall),
    'lemma_forall': mk('lemma_forall', _b_lemma_forall), 'exists': mk('exists', _b_exists),
}

EXTERNALS = {
    'copy.copy': mk('copy.copy', _b_copy),
    'fractions.Fraction': mk('Fraction', _b_Fraction),
    'math.gcd': mk('math.gcd', _b_gcd),
    'typing.List': None, 'typing.Optional': None, 'typing.Tuple': None, 'typing.Union': None,
    'typing.Dict': None, 'typing.Set': None, 'typing.Iterable': None, 'typing.Callable': None,
    'collections.UserDict': None, '__future__.annotations': None,
}
