"""z3 sorts for kinds: algebraic datatypes for classes, records, sequences, sets, maps."""
import z3


class Ctor:
    def __init__(self, name, fields, tag=None, pyclass=None):
        self.name = name
        self.fields = fields      # list of (py attr name, kind)
        self.tag = tag            # value of the tag attribute (e.g. Term.COMB == 3)
        self.pyclass = pyclass    # qualname of the Python class whose instances this ctor models
        self.con = None
        self.rec = None
        self.acc = {}             # py attr name -> accessor decl


class AdtSpec:
    """An algebraic datatype modelling a Python class hierarchy (one ctor per leaf class)."""
    def __init__(self, name, base_class, ctors, tag_attr=None, ignored=()):
        self.name = name
        self.base_class = base_class    # qualname used for method lookup
        self.ctors = ctors
        self.tag_attr = tag_attr
        self.ignored = set(ignored)     # attributes left out of the model (see DESIGN 2.2)
        self.derived = {}               # attribute -> function(z3 expr) -> (z3 expr, kind): computed attributes
        self.sort = None

    def ctor(self, name):
        for c in self.ctors:
            if c.name == name:
                return c
        raise KeyError(name)

    def ctor_for_class(self, qualname):
        for c in self.ctors:
            if c.pyclass == qualname:
                return c
        return None

    def fields_named(self, attr):
        return [(c, c.acc[attr]) for c in self.ctors if attr in c.acc]


class Sorts:
    def __init__(self):
        self.adts = {}          # kind name -> AdtSpec
        self.records = {}       # kind name -> RecordSpec
        self.class_kind = {}    # python class qualname -> kind name (adt or record)
        self.strings = {}       # interned literal -> int
        self.rev_strings = {}
        self._seq_cache = {}

    # ---- strings are interned ints; literals get ids 1.., unknown names are other ints ----
    def intern(self, s):
        if s not in self.strings:
            n = len(self.strings) + 1
            self.strings[s] = n
            self.rev_strings[n] = s
        return z3.IntVal(self.strings[s])

    # ---- ADTs ----
    def declare_adts(self, specs):
        """Declare a group of (possibly mutually recursive) ADTs.  Field kinds may refer to
        kinds in the same group, to earlier kinds, or to ('list', K) helper lists."""
        dts = {s.name: z3.Datatype(s.name) for s in specs}

        def ref(kind):
            if isinstance(kind, str) and kind in dts:
                return dts[kind]
            return self.sort_of(kind)

        for s in specs:
            for c in s.ctors:
                dts[s.name].declare(c.name, *[(s.name + '_' + c.name + '_' + f, ref(k)) for f, k in c.fields])
        created = z3.CreateDatatypes(*[dts[s.name] for s in specs])
        for s, sort in zip(specs, created):
            s.sort = sort
            for c in s.ctors:
                c.con = getattr(sort, c.name)
                c.rec = getattr(sort, 'is_' + c.name)
                for f, k in c.fields:
                    c.acc[f] = getattr(sort, s.name + '_' + c.name + '_' + f)
                if c.pyclass:
                    self.class_kind[c.pyclass] = s.name
            self.adts[s.name] = s
            if s.base_class:
                self.class_kind[s.base_class] = s.name

    def declare_record(self, name, pyclass, fields):
        """Record class: fields is an ordered list of (attr, kind)."""
        self.records[name] = RecordSpec(name, pyclass, fields)
        self.class_kind[pyclass] = name

    def record_sort(self, name):
        r = self.records[name]
        if r.sort is None:
            dt = z3.Datatype('R_' + name)
            dt.declare('mk_' + name, *[('R_%s_%s' % (name, f), self.sort_of(k)) for f, k in r.fields])
            r.sort = dt.create()
            r.con = getattr(r.sort, 'mk_' + name)
            for f, k in r.fields:
                r.acc[f] = getattr(r.sort, 'R_%s_%s' % (name, f))
        return r.sort

    def sort_of(self, kind):
        if kind == 'int':
            return z3.IntSort()
        if kind == 'bool':
            return z3.BoolSort()
        if kind == 'str':
            return z3.IntSort()
        if kind == 'real':
            return z3.RealSort()
        if isinstance(kind, str):
            if kind in self.adts:
                return self.adts[kind].sort
            if kind in self.records:
                return self.record_sort(kind)
            raise KeyError('unknown kind %r' % (kind,))
        if kind[0] == 'seq':
            return z3.SeqSort(self.sort_of(kind[1]))
        if kind[0] == 'set':
            return z3.SetSort(self.sort_of(kind[1]))
        if kind[0] == 'map':
            # finite map: array into an option type, absent keys are none
            return z3.ArraySort(self.sort_of(kind[1]), self.opt_sort(kind[2]))
        if kind[0] == 'arr':
            return z3.ArraySort(self.sort_of(kind[1]), self.sort_of(kind[2]))     # total function
        if kind[0] == 'opt':
            return self.opt_sort(kind[1])
        if kind[0] == 'tuple':
            return self.tuple_sort(kind[1])
        raise KeyError('unknown kind %r' % (kind,))

    def opt_sort(self, k):
        key = ('opt', repr(k))
        if key not in self._seq_cache:
            nm = 'Opt_' + _kname(k)
            dt = z3.Datatype(nm)
            dt.declare(nm + '_none')
            dt.declare(nm + '_some', (nm + '_val', self.sort_of(k)))
            self._seq_cache[key] = dt.create()
        return self._seq_cache[key]

    def tuple_sort(self, ks):
        key = ('tuple', repr(ks))
        if key not in self._seq_cache:
            nm = 'Tup_' + '_'.join(_kname(k) for k in ks)
            dt = z3.Datatype(nm)
            dt.declare(nm + '_mk', *[(nm + '_%d' % i, self.sort_of(k)) for i, k in enumerate(ks)])
            self._seq_cache[key] = dt.create()
        return self._seq_cache[key]


class RecordSpec:
    def __init__(self, name, pyclass, fields):
        self.name = name
        self.pyclass = pyclass
        self.fields = fields
        self.sort = None
        self.con = None
        self.acc = {}

    def field_kind(self, f):
        for g, k in self.fields:
            if g == f:
                return k
        raise KeyError(f)


def _kname(k):
    if isinstance(k, str):
        return k
    return k[0] + '_' + '_'.join(_kname(x) if not isinstance(x, (tuple, list)) or (x and isinstance(x[0], str) and x[0] in ('seq', 'set', 'map', 'opt', 'tuple')) else '_'.join(_kname(y) for y in x) for x in k[1:])
