"""pyvc -- a small modular verification-condition generator for a subset of Python.

Reads the real source text of /repo with `ast` on every run, takes contracts from
side-car files (/verif/contracts), spec functions from /verif/spec, and discharges
every obligation with z3.  See /verif/DESIGN.md.
"""
