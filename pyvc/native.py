import os
"""Concretisation of z3 models into JSON trees and into real /repo objects; native replay of a
failed obligation on the real function (run under /venv/bin/python against /repo's working tree)."""
import importlib
import sys
import traceback
import z3
from fractions import Fraction

from .values import *


# --------------------------------------------------------------------------- model -> JSON tree
def model_tree(R, model, val):
    if isinstance(val, ZV):
        return expr_tree(R, model.eval(val.e, model_completion=True), val.kind, model)
    if isinstance(val, ObjV):
        return {'obj': val.cls.qualname, 'fields': {k: model_tree(R, model, v) for k, v in val.fields.items()}}
    if isinstance(val, OptV):
        if z3.is_true(model.eval(val.isnone, model_completion=True)):
            return None
        return model_tree(R, model, val.val)
    if isinstance(val, MapV):
        return {'map': finite_map(R, model, val)}
    if isinstance(val, (TupleV, ListV)):
        return {'tuple' if isinstance(val, TupleV) else 'list': [model_tree(R, model, x) for x in val.items]}
    if isinstance(val, DictV):
        return {'dict': {}}
    if isinstance(val, (int, str, bool)) or val is None:
        return val
    return {'opaque': repr(val)}


def name_of(R, n):
    n = int(str(n))
    return R.S.rev_strings.get(n, 'x%d' % n if n >= 0 else 'y%d' % (-n))


def expr_tree(R, e, kind, model=None):
    S = R.S
    if kind == 'int':
        return int(str(e)) if z3.is_int_value(e) else {'opaque': str(e)}
    if kind == 'bool':
        return z3.is_true(e)
    if kind == 'str':
        return name_of(R, e) if z3.is_int_value(e) else {'opaque': str(e)}
    if kind == 'real':
        if z3.is_rational_value(e):
            return {'frac': [int(str(e.numerator())), int(str(e.denominator()))]}
        return {'opaque': str(e)}
    if isinstance(kind, str) and kind in S.adts:
        adt = S.adts[kind]
        d = e.decl().name()
        for c in adt.ctors:
            if c.name == d:
                return {'adt': kind, 'ctor': c.name,
                        'args': [expr_tree(R, a, k, model) for a, (f, k) in zip(e.children(), c.fields)]}
        return {'opaque': str(e)}
    if isinstance(kind, str) and kind in S.records:
        r = S.records[kind]
        return {'obj': r.pyclass,
                'fields': {f: expr_tree(R, a, k, model) for a, (f, k) in zip(e.children(), r.fields)}}
    if isinstance(kind, tuple) and kind[0] == 'seq':
        return {'list': [expr_tree(R, x, kind[1], model) for x in seq_items(e)]}
    if isinstance(kind, tuple) and kind[0] == 'set':
        items = set_items(e)
        if items is None:
            return {'opaque': str(e)}
        return {'set': [expr_tree(R, x, kind[1], model) for x in items]}
    if isinstance(kind, tuple) and kind[0] == 'opt':
        if e.decl().name().endswith('_none'):
            return None
        return expr_tree(R, e.children()[0], kind[1], model)
    if isinstance(kind, tuple) and kind[0] == 'tuple':
        return {'tuple': [expr_tree(R, a, k, model) for a, k in zip(e.children(), kind[1])]}
    if isinstance(kind, tuple) and kind[0] == 'map':
        return {'map': map_entries(R, e, kind[1], kind[2], model)}
    return {'opaque': str(e)}


def seq_items(e):
    k = e.decl().kind()
    if k == z3.Z3_OP_SEQ_EMPTY:
        return []
    if k == z3.Z3_OP_SEQ_UNIT:
        return [e.children()[0]]
    if k == z3.Z3_OP_SEQ_CONCAT:
        out = []
        for ch in e.children():
            out.extend(seq_items(ch))
        return out
    raise ValueError('unexpected sequence value %s' % e)


def set_items(e):
    """Elements of a finite set value (const-array False with stores)."""
    items = []
    removed = []
    while True:
        k = e.decl().kind()
        if k == z3.Z3_OP_STORE:
            arr, idx, v = e.children()
            if z3.is_true(v):
                if not any(idx.eq(r) for r in removed):
                    items.append(idx)
            else:
                removed.append(idx)
            e = arr
        elif k == z3.Z3_OP_CONST_ARRAY:
            if z3.is_false(e.children()[0]):
                return items
            return None
        else:
            return None


def finite_map(R, model, m):
    return map_entries(R, model.eval(m.arr, model_completion=True), m.kkind, m.vkind, model)


def map_entries(R, e, kkind, vkind, model=None):
    """Entries of a finite-map value: stores on a constant-none array."""
    out = []
    seen = []
    while True:
        k = e.decl().kind()
        if k == z3.Z3_OP_STORE:
            arr, idx, v = e.children()
            if not any(idx.eq(s) for s in seen):
                seen.append(idx)
                if not v.decl().name().endswith('_none'):
                    out.append([expr_tree(R, idx, kkind, model), expr_tree(R, v.children()[0], vkind, model)])
            e = arr
        elif k == z3.Z3_OP_CONST_ARRAY:
            if e.children()[0].decl().name().endswith('_none'):
                return out
            return {'opaque': str(e)}
        else:
            return {'opaque': str(e)}


# --------------------------------------------------------------------------- JSON tree -> real objects
def setup_repo_path(repo=None):
    # the tree the functions are imported from natively is the tree whose source is verified (PYVC_REPO: a scratch
    # worktree when seeded changes are re-evaluated without touching /repo)
    if repo is None:
        repo = os.environ.get('PYVC_REPO', '/repo')
    if repo not in sys.path:
        sys.path.insert(0, repo)
    v = '/verif'
    if v not in sys.path:
        sys.path.insert(1, v)


class NotConcrete(Exception):
    pass


def build(tree):
    """Build the real object described by a model tree (imports /repo modules)."""
    if tree is None or isinstance(tree, (bool, int, str)):
        return tree
    if 'opaque' in tree:
        raise NotConcrete(tree['opaque'])
    if 'frac' in tree:
        f = Fraction(tree['frac'][0], tree['frac'][1])
        return f
    if 'list' in tree:
        return [build(x) for x in tree['list']]
    if 'tuple' in tree:
        return tuple(build(x) for x in tree['tuple'])
    if 'set' in tree:
        return tuple(build(x) for x in tree['set'])     # sets model tuples (order arbitrary)
    if 'dict' in tree:
        return dict()
    if 'map' in tree:
        if isinstance(tree['map'], dict):
            raise NotConcrete('map')
        return {build(k): build(v) for k, v in tree['map']}
    if 'adt' in tree:
        args = [build(a) for a in tree['args']]
        if tree['adt'] == 'Type':
            from kernel import type as ktype
            if tree['ctor'] == 'TConst':
                return ktype.TConst(args[0], *args[1])
            return getattr(ktype, tree['ctor'])(*args)
        if tree['adt'] == 'Term':
            from kernel import term as kterm
            if tree['ctor'] == 'Abs':
                return kterm.Abs('v', args[0], args[1])
            return getattr(kterm, tree['ctor'])(*args)
        mod = ADT_BUILDERS.get(tree['adt'])
        if mod is not None:
            return mod(tree['ctor'], args)
        raise NotConcrete('adt ' + tree['adt'])
    if 'obj' in tree:
        q = tree['obj']
        b = OBJ_BUILDERS.get(q)
        fields = {k: build(v) for k, v in tree['fields'].items()}
        if b is None:
            raise NotConcrete('object ' + q)
        return b(fields)
    raise NotConcrete(repr(tree))


def _build_thm(f):
    from kernel.thm import Thm
    return Thm(f['prop'], tuple(f['hyps']))


def _build_itemid(f):
    from kernel.proof import ItemID
    return ItemID(tuple(f['id']))


OBJ_BUILDERS = {'kernel.thm.Thm': _build_thm, 'kernel.proof.ItemID': _build_itemid}
ADT_BUILDERS = {}


def describe(x, depth=0):
    try:
        return repr(x)[:500]
    except Exception as e:      # pragma: no cover
        return '<unprintable %s>' % type(x).__name__


def resolve(qualname):
    """Import the real function object for a dotted name (module.Class.method[.closure])."""
    parts = qualname.split('.')
    for i in range(len(parts), 0, -1):
        try:
            mod = importlib.import_module('.'.join(parts[:i]))
        except ImportError:
            continue
        obj = mod
        ok = True
        for p in parts[i:]:
            if not hasattr(obj, p):
                ok = False
                break
            obj = getattr(obj, p)
        if ok:
            return obj
    raise ImportError(qualname)


def replay(qualname, contract_module, contract_class, clause, inputs, param_order):
    """Run the real function on the concretised inputs and evaluate the contract clause natively.
    Returns dict(confirmed=bool|None, detail=str)."""
    setup_repo_path()
    try:
        args = {k: build(v) for k, v in inputs.items()}
    except NotConcrete as e:
        return {'confirmed': None, 'detail': 'model not concrete: %s' % e}
    except Exception as e:
        return {'confirmed': None, 'detail': 'cannot build inputs: %s: %s' % (type(e).__name__, e)}
    try:
        fn = resolve(qualname)
    except ImportError as e:
        return {'confirmed': None, 'detail': 'real function not importable (closure?): %s' % e}
    try:
        cm = importlib.import_module(contract_module)
        cl = getattr(getattr(cm, contract_class), clause)
    except Exception as e:
        return {'confirmed': None, 'detail': 'contract clause not importable: %s' % e}
    call_args = [args[p] for p in param_order]
    shown = {k: describe(v) for k, v in args.items()}
    try:
        result = fn(*call_args)
    except Exception as e:
        return {'confirmed': False, 'detail': 'real function raised %s: %s' % (type(e).__name__, e),
                'inputs': shown}
    try:
        import inspect
        names = list(inspect.signature(cl).parameters)
        env = dict(args)
        env['result'] = result
        ok = cl(*[env[n] for n in names])
    except Exception as e:
        return {'confirmed': None, 'detail': 'clause evaluation raised %s: %s' % (type(e).__name__, e),
                'inputs': shown, 'result': describe(result)}
    return {'confirmed': (not ok), 'detail': 'clause evaluates to %r on the real result' % (ok,),
            'inputs': shown, 'result': describe(result)}
