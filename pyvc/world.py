"""Global verification context: repo ASTs, sorts, contracts, spec functions."""
import ast
import os
import z3

from .repo import Repo, ModuleInfo, VERIF
from .sorts import Sorts
from .values import SpecFnV, OutOfReach


def parse_kind(s):
    """'Term', 'int', 'seq[Term]', 'set[Term]', 'map[str,Term]', 'opt[Thm]', 'tuple[Term,int]'."""
    if not isinstance(s, str):
        return s
    s = s.strip()
    if '[' not in s:
        return s
    head, rest = s.split('[', 1)
    assert rest.endswith(']'), s
    rest = rest[:-1]
    parts, depth, cur = [], 0, ''
    for ch in rest:
        if ch == '[':
            depth += 1
        elif ch == ']':
            depth -= 1
        if ch == ',' and depth == 0:
            parts.append(cur)
            cur = ''
        else:
            cur += ch
    parts.append(cur)
    ks = [parse_kind(p) for p in parts]
    if head == 'tuple':
        return ('tuple', tuple(ks))
    return (head,) + tuple(ks)


def kind_of_annotation(node):
    if node is None:
        return None
    if isinstance(node, ast.Constant) and isinstance(node.value, str):
        return parse_kind(node.value)
    if isinstance(node, ast.Name):
        return {'int': 'int', 'bool': 'bool', 'str': 'str', 'Fraction': 'real'}.get(node.id, node.id)
    raise OutOfReach('annotation ' + ast.dump(node))


class Contract:
    def __init__(self, qualname, module):
        self.qualname = qualname
        self.module = module          # ModuleInfo of the contract file (name resolution)
        self.params = None            # ordered dict name -> kind
        self.captures = {}
        self.returns = None
        self.requires = []            # [(label, FunctionDef)]
        self.ensures = []
        self.decreases = None         # FunctionDef or 'structural:<param>'
        self.raises = []              # exception class names the function may raise
        self.must_raise = []          # [(label, FunctionDef)]: condition => the call raises
        self.invariants = {}          # loop ordinal -> [(label, FunctionDef)]
        self.loop_hints = {}          # loop ordinal -> [(label, FunctionDef)]
        self.loop_kinds = {}          # loop ordinal -> {var: kind}
        self.memo = None
        self.modifies = []            # names of parameters / captured variables modified (copy-out)
        self.structural_eq = False
        self.trusted = False          # contract assumed, body not verified (listed in evidence)
        self.inline = False
        self.pure_result = None       # spec function name: result == f(params) (functional contract)
        self.note = ''
        self.ghost = {}               # ghost parameters name -> kind (universally quantified)
        self.self_kind = None
        self.inline_if_none = None
        self.inline_if_concrete = False
        self.group = ()
        self.hints = []               # [(label, FunctionDef)]: lemma uses evaluated at entry
        self.comp_invariants = {}     # comprehension ordinal -> [(label, FunctionDef)]
        self.loop_modifies = {}       # loop ordinal -> [names of objects modified through callees]
        self.comp_modifies = {}       # comprehension ordinal -> [names]


def _literal(node):
    return ast.literal_eval(node)


class World:
    def __init__(self, repo_root=None):
        self.repo = Repo(repo_root, extra_roots=[VERIF])
        self.sorts = Sorts()
        self.contracts = {}
        self.specs = {}               # name -> SpecFnV
        self.spec_defs = {}           # name -> (ModuleInfo, FunctionDef)
        self.spec_defined = set()
        self.spec_defining = set()
        self.spec_macros = {}         # non-recursive spec functions: name -> (param consts, body)
        self.overrides = {}           # qualname -> callable(interp, args, kwargs)
        self.lemmas = {}              # name -> (ModuleInfo, FunctionDef)  (proved side-car lemmas)
        self.fresh_n = 0
        self.assumed = []             # textual list of assumptions (trusted contracts, externals)
        self.exc_bases = dict(BUILTIN_EXC)
        self.struct_eq_kinds = set(['int', 'bool', 'str', 'real'])
        self.global_cache = {}

    # ----- contracts -----
    def load_contracts(self, modname):
        mi = self.repo.module(modname)
        if mi is None:
            raise KeyError(modname)
        for cname, ci in mi.classes.items():
            q = None
            for d in ci.node.decorator_list:
                if isinstance(d, ast.Call) and getattr(d.func, 'id', None) == 'contract':
                    q = _literal(d.args[0])
            if q is None:
                continue
            c = Contract(q, mi)
            for item in ci.node.body:
                if isinstance(item, ast.Assign) and isinstance(item.targets[0], ast.Name):
                    nm = item.targets[0].id
                    val = _literal(item.value)
                    if nm == 'params':
                        c.params = {k: parse_kind(v) for k, v in val.items()}
                    elif nm == 'captures':
                        c.captures = {k: parse_kind(v) for k, v in val.items()}
                    elif nm == 'ghost':
                        c.ghost = {k: parse_kind(v) for k, v in val.items()}
                    elif nm == 'returns':
                        c.returns = parse_kind(val)
                    elif nm == 'loop_kinds':
                        c.loop_kinds = {int(k): {a: parse_kind(b) for a, b in v.items()} for k, v in val.items()}
                    elif nm in ('loop_modifies', 'comp_modifies'):
                        setattr(c, nm, {int(k): list(v) for k, v in val.items()})
                    elif nm == 'inherits':
                        # behavioural subtyping: the override is verified against the base method's contract,
                        # for receivers of the overriding class
                        base = self.contracts[val]
                        for a in ('params', 'captures', 'returns', 'decreases', 'raises', 'modifies', 'ghost',
                                  'memo', 'pure_result', 'loop_kinds'):
                            setattr(c, a, getattr(base, a))
                        c.requires = list(base.requires)
                        c.ensures = list(base.ensures)
                        c.hints = list(base.hints)
                        c.must_raise = list(base.must_raise)
                        c.module = base.module
                        cls = q.rsplit('.', 2)[-2]
                        fn = ast.parse('def requires_receiver_class(self):\n    return isinstance(self, %s)\n' % cls
                                       ).body[0]
                        c.requires.append(('requires_receiver_class', fn))
                    elif nm in ('decreases', 'raises', 'memo', 'modifies', 'structural_eq', 'trusted',
                                'inline', 'note', 'pure_result', 'inline_if_none', 'group', 'inline_if_concrete'):
                        setattr(c, nm, val)
                    else:
                        raise OutOfReach('contract %s: unknown attribute %s' % (q, nm))
                elif isinstance(item, ast.FunctionDef):
                    nm = item.name
                    if nm.startswith('requires'):
                        c.requires.append((nm, item))
                    elif nm.startswith('ensures'):
                        c.ensures.append((nm, item))
                    elif nm.startswith('must_raise'):
                        c.must_raise.append((nm, item))
                    elif nm.startswith('loop_hint'):
                        # loop_hint<ordinal>: lemma instances at the head of the loop, evaluated on the arbitrary
                        # iteration state right after the invariants have been assumed (a hint, never an assumption:
                        # a lemma call proves the lemma's requires and assumes its separately proved ensures)
                        rest = nm[len('loop_hint'):]
                        num = ''
                        while rest and rest[0].isdigit():
                            num += rest[0]
                            rest = rest[1:]
                        c.loop_hints.setdefault(int(num or 0), []).append((nm, item))
                    elif nm.startswith('hint'):
                        c.hints.append((nm, item))
                    elif nm == 'decreases':
                        c.decreases = item
                    elif nm.startswith('comp_invariant'):
                        # comp_invariant<ordinal>[_label]: a comprehension with side effects, run as a loop
                        rest = nm[len('comp_invariant'):]
                        num = ''
                        while rest and rest[0].isdigit():
                            num += rest[0]
                            rest = rest[1:]
                        c.comp_invariants.setdefault(int(num or 0), []).append((nm, item))
                    elif nm.startswith('invariant'):
                        # invariant<ordinal>[_label]
                        rest = nm[len('invariant'):]
                        num = ''
                        while rest and rest[0].isdigit():
                            num += rest[0]
                            rest = rest[1:]
                        c.invariants.setdefault(int(num or 0), []).append((nm, item))
                    else:
                        raise OutOfReach('contract %s: unknown clause %s' % (q, nm))
            self.contracts[q] = c
            if c.trusted:
                self.assumed.append('trusted contract: %s %s' % (q, c.note))
        return mi

    # ----- spec functions -----
    def load_specs(self, modname):
        mi = self.repo.module(modname)
        if mi is None:
            raise KeyError(modname)
        for fname, fn in mi.functions.items():
            decos = [getattr(d, 'id', getattr(d, 'attr', None)) for d in fn.decorator_list]
            if 'lemma' in decos:
                self.lemmas[fname] = (mi, fn)
                continue
            if 'native' in decos:
                continue
            if fn.returns is None:
                continue
            if fname in self.specs:
                raise OutOfReach('duplicate spec function name %s (in %s)' % (fname, modname))
            pk = [kind_of_annotation(a.annotation) for a in fn.args.args]
            rk = kind_of_annotation(fn.returns)
            sorts = [self.sorts.sort_of(k) for k in pk] + [self.sorts.sort_of(rk)]
            if 'uninterpreted' in decos:
                decl = z3.Function(fname, *sorts)
                self.specs[fname] = SpecFnV(fname, decl, pk, rk)
                self.spec_defined.add(fname)
                self.assumed.append('uninterpreted spec function: ' + fname)
                continue
            decl = z3.RecFunction(fname, *sorts)
            self.specs[fname] = SpecFnV(fname, decl, pk, rk)
            self.spec_defs[fname] = (mi, fn)
        return mi

    def spec_calls(self, name):
        """Names of spec functions called (syntactically) by spec function `name`."""
        if name not in self.spec_defs:
            return set()
        mi, fn = self.spec_defs[name]
        out = set()
        for node in ast.walk(fn):
            if isinstance(node, ast.Call):
                if isinstance(node.func, ast.Name) and node.func.id in self.specs:
                    out.add(node.func.id)
                for a in node.args:      # seq_map(f, ...) passes a spec function by name
                    if isinstance(a, ast.Name) and a.id in self.specs:
                        out.add(a.id)
        return out

    def spec_is_recursive(self, name):
        seen = set()
        todo = list(self.spec_calls(name))
        while todo:
            n = todo.pop()
            if n == name:
                return True
            if n in seen:
                continue
            seen.add(n)
            todo.extend(self.spec_calls(n))
        return False

    def map_fn(self, fname):
        """z3 recursive function map_<f>(l, extras...) = [f(x, extras...) for x in l] (generated)."""
        key = 'map_' + fname
        if key in self.specs:
            return self.specs[key]
        sf = self.specs[fname]
        pk = [('seq', sf.pkinds[0])] + list(sf.pkinds[1:])
        rk = ('seq', sf.rkind)
        sorts = [self.sorts.sort_of(k) for k in pk] + [self.sorts.sort_of(rk)]
        decl = z3.RecFunction(key, *sorts)
        consts = [z3.Const('%s?%d' % (key, i), s) for i, s in enumerate(sorts[:-1])]
        l = consts[0]
        n = z3.Length(l)
        if fname in self.spec_macros:
            mc, mb = self.spec_macros[fname]
            elem = z3.substitute(mb, *zip(mc, [l[0]] + consts[1:]))
        else:
            elem = sf.decl(l[0], *consts[1:])
        body = z3.If(n == 0, z3.Empty(sorts[-1]),
                     z3.Concat(z3.Unit(elem), decl(z3.SubSeq(l, 1, n - 1), *consts[1:])))
        z3.RecAddDefinition(decl, consts, body)
        self.specs[key] = SpecFnV(key, decl, pk, rk)
        self.spec_defined.add(key)
        return self.specs[key]

    def define_specs(self):
        from .interp import define_spec
        for name in list(self.spec_defs):
            if name not in self.spec_defined:
                self.spec_defined.add(name)
                mi, fn = self.spec_defs[name]
                define_spec(self, name, mi, fn)

    def is_subclass_exc(self, name, base):
        seen = set()
        todo = [name]
        while todo:
            n = todo.pop()
            if n == base:
                return True
            if n in seen:
                continue
            seen.add(n)
            todo.extend(self.exc_bases.get(n, ['Exception'] if n not in ('BaseException', 'Exception') else
                                           (['BaseException'] if n == 'Exception' else [])))
        return False


BUILTIN_EXC = {
    'BaseException': [],
    'Exception': ['BaseException'],
    'KeyboardInterrupt': ['BaseException'],
    'ArithmeticError': ['Exception'],
    'ZeroDivisionError': ['ArithmeticError'],
    'OverflowError': ['ArithmeticError'],
    'AssertionError': ['Exception'],
    'AttributeError': ['Exception'],
    'LookupError': ['Exception'],
    'IndexError': ['LookupError'],
    'KeyError': ['LookupError'],
    'TypeError': ['Exception'],
    'ValueError': ['Exception'],
    'NotImplementedError': ['RuntimeError'],
    'RuntimeError': ['Exception'],
    'RecursionError': ['RuntimeError'],
    'StopIteration': ['Exception'],
    'OSError': ['Exception'],
    'FileNotFoundError': ['OSError'],
}
