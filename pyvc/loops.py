"""Loops (with invariants from the side-car contract), comprehensions and any/all."""
import ast
import z3

from .values import *
from . import builtins_ as B


# --------------------------------------------------------------------------- helpers
def assigned_names(stmts):
    """Names (possibly) modified by executing stmts: assignments and mutating method calls."""
    out = set()

    def target(t):
        if isinstance(t, ast.Name):
            out.add(t.id)
        elif isinstance(t, (ast.Tuple, ast.List)):
            for e in t.elts:
                target(e)
        elif isinstance(t, (ast.Attribute, ast.Subscript)):
            base = t
            while isinstance(base, (ast.Attribute, ast.Subscript)):
                base = base.value
            if isinstance(base, ast.Name):
                out.add(base.id)
        elif isinstance(t, ast.Starred):
            target(t.value)

    def visit(node):
        if isinstance(node, (ast.FunctionDef, ast.Lambda, ast.ClassDef)):
            return
        if isinstance(node, ast.Assign):
            for t in node.targets:
                target(t)
        elif isinstance(node, (ast.AugAssign, ast.AnnAssign)):
            target(node.target)
        elif isinstance(node, ast.For):
            target(node.target)
        elif isinstance(node, ast.Call) and isinstance(node.func, ast.Attribute) and node.func.attr in B.MUTATORS:
            target(node.func.value)
        for ch in ast.iter_child_nodes(node):
            visit(ch)

    for s in stmts:
        visit(s)
    return out


class LazyValues(dict):
    """Parameter lookup for invariant clauses: ghosts first, then the environment."""
    def __init__(self, R, env, ghosts):
        dict.__init__(self, ghosts)
        self.R = R
        self.env = env

    def __contains__(self, k):
        return dict.__contains__(self, k) or self.env.has(k) or k in getattr(self.R, 'olds', {})

    def __getitem__(self, k):
        if dict.__contains__(self, k):
            return dict.__getitem__(self, k)
        if self.env.has(k):
            return self.env.lookup(k)
        return self.R.olds[k]        # old_<param>: entry value of a modified parameter of the target


def loop_contract(R, node):
    fr = R.frames[-1] if R.frames else None
    if fr is None or fr.contract is None:
        return None, None, None
    o = fr.loop_ord.get(id(node))
    return fr.contract, o, fr.contract.invariants.get(o)


def fr_ord(R, node):
    return R.frames[-1].loop_ord.get(id(node))


def havoc_var(R, env, name, kinds):
    cur = env.lookup(name) if env.has(name) else None
    if name in kinds:
        k = kinds[name]
    elif isinstance(cur, ZV):
        k = cur.kind
    elif isinstance(cur, bool):
        k = 'bool'
    elif isinstance(cur, int):
        k = 'int'
    elif isinstance(cur, (MapV, ObjV)):
        R.havoc_inplace(cur, name)
        return
    elif isinstance(cur, (ListV, TupleV)) and cur.items:
        k = ('seq', R.kind_of(cur.items[0]))
    elif isinstance(cur, OptV):
        k = ('opt', cur.kind)
    elif cur is None and not env.has(name):
        return      # first assigned inside the loop: no value before
    else:
        raise OutOfReach('cannot havoc loop variable %s (%r): declare its kind in loop_kinds' % (name, cur))
    env.set(name, R.fresh(k, name))


def to_symbolic(R, env, name, kinds):
    """Before the loop: turn concrete containers that the loop modifies into symbolic ones."""
    if not env.has(name):
        return
    cur = env.lookup(name)
    if isinstance(cur, (ListV, TupleV)):
        if name in kinds:
            k = kinds[name]
        elif cur.items:
            k = ('seq', R.kind_of(cur.items[0]))
        else:
            raise OutOfReach('loop variable %s is an empty list: declare its kind in loop_kinds' % name)
        env.set(name, ZV(R.z(cur, k), k))
    elif isinstance(cur, B.EmptySetV):
        if name not in kinds:
            raise OutOfReach('loop variable %s is an empty set: declare its kind in loop_kinds' % name)
        k = kinds[name]
        env.set(name, ZV(z3.EmptySet(R.S.sort_of(k[1])), k))
    elif isinstance(cur, bool):
        env.set(name, ZV(z3.BoolVal(cur), 'bool'))
    elif isinstance(cur, int):
        env.set(name, ZV(z3.IntVal(cur), 'int'))


def check_invs(R, c, invs, env, ghosts, when, assume=False):
    for lbl, fn in invs:
        gs = dict(ghosts)
        gconsts = []
        for p in fn.args.args:
            if p.arg in c.ghost:
                gv = R.fresh(c.ghost[p.arg], 'g_' + p.arg)
                gs[p.arg] = gv
                gconsts.append(gv.e)
        vals = LazyValues(R, env, gs)
        cl = R.tobool(R.eval_clause(c, fn, vals))
        if assume:
            R.assume(z3.ForAll(gconsts, cl) if gconsts else cl)
        else:
            # one obligation per conjunct (each is assumed once proved, so later conjuncts see the earlier ones)
            parts = [cl]
            if not gconsts and z3.is_and(cl):
                parts = []
                todo = [cl]
                while todo:
                    x = todo.pop(0)
                    if z3.is_and(x):
                        todo = list(x.children()) + todo
                    else:
                        parts.append(x)
            for k, part in enumerate(parts):
                R.prove(part, 'inv-%s:%s:%s%s' % (when, c.qualname, lbl, '#%d' % k if len(parts) > 1 else ''), 'inv')


# --------------------------------------------------------------------------- while
def exec_while(R, node, env):
    c, o, invs = loop_contract(R, node)
    if invs is None:
        # no invariant: plain unrolling is only possible while the condition is concrete
        n = 0
        while True:
            n_tr = len(R.trace)
            t = R.truth(R.eval(node.test, env))
            if len(R.trace) != n_tr:
                raise OutOfReach('while loop with symbolic condition needs an invariant (loop %s of %s)' % (
                    o, R.frames[-1].fv.qualname if R.frames else '?'))
            if not isinstance(t, bool):
                t = z3.simplify(t)
                if z3.is_true(t):
                    t = True
                elif z3.is_false(t):
                    t = False
                else:
                    raise OutOfReach('while loop with symbolic condition needs an invariant (loop %s of %s)' % (
                        o, R.frames[-1].fv.qualname if R.frames else '?'))
            if not t:
                break
            n += 1
            if n > 200:
                raise OutOfReach('concrete while loop too long')
            try:
                R.exec_block(node.body, env)
            except BreakSig:
                return
            except ContinueSig:
                continue
        R.exec_block(node.orelse, env)
        return
    kinds = c.loop_kinds.get(o, {})
    mod = sorted(assigned_names(node.body) | set(c.loop_modifies.get(o, [])))
    for nm in mod:
        to_symbolic(R, env, nm, kinds)
    check_invs(R, c, invs, env, {}, 'entry')
    for nm in mod:
        havoc_var(R, env, nm, kinds)
    check_invs(R, c, invs, env, {}, 'assume', assume=True)
    for lbl, fn in c.loop_hints.get(o, []):
        R.eval_clause(c, fn, LazyValues(R, env, {}))
    t = R.truth(R.eval(node.test, env))
    if R.choose(t):
        try:
            R.exec_block(node.body, env)
        except BreakSig:
            return
        except ContinueSig:
            pass
        check_invs(R, c, invs, env, {}, 'preserved')
        raise PathEnd('loop body')
    R.exec_block(node.orelse, env)


# --------------------------------------------------------------------------- for
def exec_for(R, node, env):
    if isinstance(node.iter, ast.Call) and isinstance(node.iter.func, ast.Name) and node.iter.func.id == 'reversed' \
            and len(node.iter.args) == 1 and not node.iter.keywords and not env.has('reversed'):
        # `for x in reversed(xs)`: iterate by index from the end (no need for the sequence-valued spec rev_<kind>)
        inner = R.eval(node.iter.args[0], env)
        items = R.concrete_items(inner)
        it = TupleV(list(reversed(items))) if items is not None else RevV(inner)
    else:
        it = R.eval(node.iter, env)
    if isinstance(it, IterV):
        it = B.consume_comprehension(R, it, 'tuple')
    items = R.concrete_items(it)
    if items is not None:
        for x in items:
            R.assign(node.target, x, env)
            try:
                R.exec_block(node.body, env)
            except BreakSig:
                return
            except ContinueSig:
                continue
        R.exec_block(node.orelse, env)
        return
    c, o, invs = loop_contract(R, node)
    if invs is None:
        raise OutOfReach('for loop over a symbolic collection needs an invariant (loop %s of %s)' % (
            o, R.frames[-1].fv.qualname if R.frames else '?'))
    kinds = c.loop_kinds.get(o, {})
    mod = sorted(assigned_names(node.body) | assigned_names([ast.Assign(targets=[node.target], value=None)]) |
                 set(c.loop_modifies.get(o, [])))
    tnames = assigned_names([ast.Assign(targets=[node.target], value=None)])
    for nm in mod:
        if nm not in tnames:
            to_symbolic(R, env, nm, kinds)
    if B.is_set(it):
        return for_set(R, node, env, it, c, invs, kinds, mod, tnames)
    return for_indexed(R, node, env, it, c, invs, kinds, mod, tnames)


def elem_at(R, it, i):
    """Element number i (z3 Int) of an indexable iterable, and its length."""
    if B.is_seq(it):
        e = it.e
        if z3.is_app(e) and e.decl().kind() == z3.Z3_OP_SEQ_EXTRACT:
            # element i of base[off : off + ln] is base[off + i] (for 0 <= i < length of the slice, which is
            # what a loop reads): saves the solver the reasoning about nth over extract
            base, off, ln = e.arg(0), e.arg(1), e.arg(2)
            L = z3.Length(base)
            # length of seq.extract stated arithmetically (SMT-LIB: empty unless 0 <= off <= |base| and ln > 0,
            # else min(ln, |base| - off) elements)
            n = z3.If(z3.Or(off < 0, off > L, ln <= 0), z3.IntVal(0), z3.If(ln < L - off, ln, L - off))
            return R.wrap(base[off + i], it.kind[1]), n
        return R.wrap(e[i], it.kind[1]), z3.Length(e)
    if isinstance(it, (TupleV, ListV)):
        sq = R.as_seq(it)
        return R.wrap(sq[0][i], sq[1]), z3.IntVal(len(it.items))
    if isinstance(it, RangeV):
        if it.step != 1:
            raise OutOfReach('range step')
        lo, hi = R.z(it.lo, 'int'), R.z(it.hi, 'int')
        return ZV(lo + i, 'int'), z3.If(hi - lo < 0, z3.IntVal(0), hi - lo)
    if isinstance(it, ZipV):
        parts = [elem_at(R, p, i) for p in it.parts]
        n = parts[0][1]
        for _, m in parts[1:]:
            n = z3.If(m < n, m, n)
        return TupleV([p for p, _ in parts]), n
    if isinstance(it, EnumV):
        x, n = elem_at(R, it.inner, i)
        return TupleV([ZV(i + R.z(it.start, 'int'), 'int'), x]), n
    if isinstance(it, RevV):
        _, n = elem_at(R, it.inner, z3.IntVal(0))
        x, _ = elem_at(R, it.inner, n - 1 - i)
        return x, n
    raise OutOfReach('iteration over %r' % (it,))


def for_indexed(R, node, env, it, c, invs, kinds, mod, tnames):
    _, n = elem_at(R, it, z3.IntVal(0))
    n = z3.simplify(n)
    check_invs(R, c, invs, env, {'_i': 0, '_n': ZV(n, 'int')}, 'entry')
    for nm in mod:
        if nm not in tnames:
            havoc_var(R, env, nm, kinds)
    i = R.fresh('int', '_i')
    R.assume(z3.And(i.e >= 0, i.e <= n))
    check_invs(R, c, invs, env, {'_i': i, '_n': ZV(n, 'int')}, 'assume', assume=True)
    if R.choose(i.e < n):
        x, _ = elem_at(R, it, i.e)
        R.assign(node.target, x, env)
        for lbl, fn in c.loop_hints.get(fr_ord(R, node), []):
            R.eval_clause(c, fn, LazyValues(R, env, {'_i': i, '_n': ZV(n, 'int')}))
        try:
            R.exec_block(node.body, env)
        except BreakSig:
            return
        except ContinueSig:
            pass
        check_invs(R, c, invs, env, {'_i': ZV(i.e + 1, 'int'), '_n': ZV(n, 'int')}, 'preserved')
        raise PathEnd('loop body')
    R.exec_block(node.orelse, env)


def for_set(R, node, env, it, c, invs, kinds, mod, tnames):
    ek = it.kind[1]
    srt = R.S.sort_of(ek)
    empty = z3.EmptySet(srt)
    check_invs(R, c, invs, env, {'_done': ZV(empty, it.kind), '_all': it}, 'entry')
    for nm in mod:
        if nm not in tnames:
            havoc_var(R, env, nm, kinds)
    done = R.fresh(it.kind, '_done')
    R.assume(z3.IsSubset(done.e, it.e))
    check_invs(R, c, invs, env, {'_done': done, '_all': it}, 'assume', assume=True)
    if R.choose(done.e != it.e):
        x = R.fresh(ek, '_x')
        R.assume(z3.And(z3.IsMember(x.e, it.e), z3.Not(z3.IsMember(x.e, done.e))))
        R.assign(node.target, x, env)
        try:
            R.exec_block(node.body, env)
        except BreakSig:
            return
        except ContinueSig:
            pass
        check_invs(R, c, invs, env, {'_done': ZV(z3.SetAdd(done.e, x.e), it.kind), '_all': it}, 'preserved')
        raise PathEnd('loop body')
    R.exec_block(node.orelse, env)


# --------------------------------------------------------------------------- element-wise summaries
class ElemSummary:
    pass


def summarise(R, it):
    """Evaluate the element expression / conditions of a single-generator comprehension for an
    arbitrary element of a symbolic collection.  Returns an ElemSummary with
       h      : z3 constant standing for the element (or the index for sequences)
       mem    : z3 Bool, `h` is an element (index in range)
       facts  : list of z3 Bool established during evaluation (callee post-conditions)
       conds  : z3 Bool, conjunction of the `if` filters
       value  : value of the element expression
       fresh  : fresh constants introduced during evaluation (to be skolemised as functions of h)
    """
    node = it.node
    if len(node.generators) != 1:
        raise OutOfReach('comprehension with several generators over symbolic collections')
    gen = node.generators[0]
    coll = R.eval(gen.iter, it.env)
    if isinstance(coll, IterV):
        coll = B.consume_comprehension(R, coll, 'tuple')
    s = ElemSummary()
    s.coll = coll
    s.concrete = R.concrete_items(coll)
    if s.concrete is not None:
        return s
    env = type(it.env)(it.env.module, it.env, it.env.cls)
    n0 = len(R.pc)
    n_trace = len(R.trace)
    n_fresh = R.fresh_n
    saved_known = dict(R.known)
    R.summarising = getattr(R, 'summarising', 0) + 1
    try:
        if B.is_set(coll):
            hc = z3.Const(R.fresh_name('_e'), R.S.sort_of(coll.kind[1]))
            s.h = hc
            s.mem = z3.IsMember(hc, coll.e)
            s.index = False
            elem = R.wrap(hc, coll.kind[1])
        else:
            i = R.fresh('int', '_k')
            elem, n = elem_at(R, coll, i.e)
            s.h = i.e
            s.n = z3.simplify(n)
            s.mem = z3.And(i.e >= 0, i.e < s.n)
            s.index = True
        R.assume(s.mem)
        R.assign(gen.target, elem, env)
        conds = []
        for cnd in gen.ifs:
            conds.append(R.tobool(R.eval(cnd, env)))
        s.conds = z3.And(*conds) if conds else z3.BoolVal(True)
        # the element expression is evaluated under the filter
        n1 = len(R.pc)
        R.assume(s.conds)
        s.value = R.eval(node.elt, env)
        if len(R.trace) != n_trace:
            raise OutOfReach('branching inside a comprehension over a symbolic collection')
        s.facts = R.pc[n0 + 1:n1] + [z3.Implies(s.conds, f) for f in R.pc[n1 + 1:]]
    finally:
        R.summarising -= 1
        del R.pc[n0:]
        R.known = saved_known
    s.fresh_range = (n_fresh, R.fresh_n)
    return s


def skolemise(R, s, exprs):
    """Replace the fresh constants created while summarising by fresh functions of the element,
    and the element constant by a bound variable; returns (bound var, rewritten exprs)."""
    hs = s.h.sort()
    x = z3.Const(R.fresh_name('_q'), hs)
    consts = set()
    for e in exprs:
        collect_consts(e, consts)
    subs = [(s.h, x)]
    lo, hi = s.fresh_range
    for cst in consts:
        nm = cst.decl().name()
        if '!' in nm:
            try:
                k = int(nm.rsplit('!', 1)[1])
            except ValueError:
                continue
            if lo < k <= hi and not cst.eq(s.h):
                f = z3.Function(R.fresh_name('sk_' + nm.split('!')[0]), hs, cst.sort())
                subs.append((cst, f(x)))
    return x, [z3.substitute(e, *subs) for e in exprs]


def collect_consts(e, out, seen=None):
    if seen is None:
        seen = set()
    if e.get_id() in seen:
        return
    seen.add(e.get_id())
    if z3.is_const(e) and e.decl().kind() == z3.Z3_OP_UNINTERPRETED:
        out.add(e)
    if z3.is_quantifier(e):
        collect_consts(e.body(), out, seen)
        return
    for ch in e.children():
        collect_consts(ch, out, seen)


def quantify(R, it, which):
    s = summarise(R, it)
    if s.concrete is not None:
        vals = []
        node = it.node
        gen = node.generators[0]
        for x in s.concrete:
            env = type(it.env)(it.env.module, it.env, it.env.cls)
            R.assign(gen.target, x, env)
            ok = True
            for cnd in gen.ifs:
                if not R.choose(R.truth(R.eval(cnd, env))):
                    ok = False
                    break
            if not ok:
                continue
            t = R.truth(R.eval(node.elt, env))
            # Python's any/all short-circuit
            if which == 'any' and R.choose(t):
                return True
            if which == 'all' and not R.choose(t):
                return False
        return which == 'all'
    b = R.tobool(s.value)
    x, (mem, conds, body, *facts) = skolemise(R, s, [s.mem, s.conds, b] + list(s.facts))
    if facts:
        R.assume(z3.ForAll([x], z3.Implies(mem, z3.And(*facts))))
    r = z3.Bool(R.fresh_name(which))
    w = z3.Const(R.fresh_name('_w'), x.sort())
    inst = lambda e: z3.substitute(e, (x, w))
    if which == 'any':
        # r -> witness ; not r -> forall not
        R.assume(z3.Implies(r, z3.And(inst(mem), inst(conds), inst(body))))
        R.assume(z3.Implies(z3.Not(r), z3.ForAll([x], z3.Implies(z3.And(mem, conds), z3.Not(body)))))
    else:
        R.assume(z3.Implies(z3.Not(r), z3.And(inst(mem), inst(conds), z3.Not(inst(body)))))
        R.assume(z3.Implies(r, z3.ForAll([x], z3.Implies(z3.And(mem, conds), body))))
    return ZV(r, 'bool')


def comprehension_as_loop(R, it, target, c, k, invs):
    """A comprehension whose element expression has side effects (a callee that modifies an object):
    executed like a for-loop over the collection with the contract's comp_invariant<k>.  Ghosts for the
    invariant: _done (elements processed), _all (the collection), _res (results so far, a set)."""
    node = it.node
    if len(node.generators) != 1 or node.generators[0].ifs:
        raise OutOfReach('stateful comprehension with filters / several generators')
    gen = node.generators[0]
    coll = R.eval(gen.iter, it.env)
    if not B.is_set(coll):
        raise OutOfReach('stateful comprehension over %r (only sets are supported)' % (coll,))
    env = type(it.env)(it.env.module, it.env, it.env.cls)
    ek = coll.kind[1]
    rkind = c.loop_kinds.get(('comp', k), None) or ('set', ek)
    empty_in = z3.EmptySet(R.S.sort_of(ek))
    empty_res = z3.EmptySet(R.S.sort_of(rkind[1]))
    check_invs(R, c, invs, env, {'_done': ZV(empty_in, coll.kind), '_all': coll, '_res': ZV(empty_res, rkind)},
               'entry')
    for nm in c.comp_modifies.get(k, []):
        havoc_var(R, env, nm, {})
    done = R.fresh(coll.kind, '_done')
    res = R.fresh(rkind, '_res')
    R.assume(z3.IsSubset(done.e, coll.e))
    check_invs(R, c, invs, env, {'_done': done, '_all': coll, '_res': res}, 'assume', assume=True)
    if R.choose(done.e != coll.e):
        x = R.fresh(ek, '_x')
        R.assume(z3.And(z3.IsMember(x.e, coll.e), z3.Not(z3.IsMember(x.e, done.e))))
        R.assign(gen.target, x, env)
        v = R.eval(node.elt, env)
        res2 = ZV(z3.SetAdd(res.e, R.z(v, rkind[1])), rkind)
        check_invs(R, c, invs, env, {'_done': ZV(z3.SetAdd(done.e, x.e), coll.kind), '_all': coll, '_res': res2},
                   'preserved')
        raise PathEnd('comprehension body')
    return res


def comprehension(R, it, target):
    fr = R.frames[-1] if R.frames else None
    if fr is not None and fr.contract is not None and not R.spec_mode:
        k = fr.comp_ord.get(id(it.node))
        invs = fr.contract.comp_invariants.get(k)
        if invs is not None:
            return comprehension_as_loop(R, it, target, fr.contract, k, invs)
    s = summarise(R, it)
    node = it.node
    gen = node.generators[0]
    if s.concrete is not None:
        out = []
        for x in s.concrete:
            env = type(it.env)(it.env.module, it.env, it.env.cls)
            R.assign(gen.target, x, env)
            ok = True
            for cnd in gen.ifs:
                if not R.choose(R.truth(R.eval(cnd, env))):
                    ok = False
                    break
            if ok:
                if len(node.generators) > 1:
                    raise OutOfReach('nested generators')
                out.append(R.eval(node.elt, env))
        if target == 'list':
            return ListV(out)
        if target == 'set':
            if not out:
                return B.EmptySetV()
            k = R.kind_of(out[0])
            return ZV(R.z(TupleV(out), ('set', k)), ('set', k))
        return TupleV(out)
    vk = R.kind_of(s.value)
    ve = R.z(s.value, vk)
    x, (mem, conds, val, *facts) = skolemise(R, s, [s.mem, s.conds, ve] + list(s.facts))
    if facts:
        R.assume(z3.ForAll([x], z3.Implies(mem, z3.And(*facts))))
    if not s.index:
        # iteration over a set: the result is a set (tuple abstracted as set)
        rk = ('set', vk)
        identity = z3.simplify(val == x) if val.sort() == x.sort() else z3.BoolVal(False)
        if isinstance(node.elt, ast.Name) and isinstance(gen.target, ast.Name) and node.elt.id == gen.target.id:
            identity = z3.BoolVal(True)      # [x for x in S if ...]: the element itself
        if z3.is_true(identity):
            res = z3.Lambda([x], z3.And(mem, conds))
            return ZV(res, rk)
        res = z3.Const(R.fresh_name('image'), R.S.sort_of(rk))
        y = z3.Const(R.fresh_name('_y'), R.S.sort_of(vk))
        g = z3.Function(R.fresh_name('preimage'), R.S.sort_of(vk), x.sort())
        R.assume(z3.ForAll([x], z3.Implies(z3.And(mem, conds), z3.IsMember(val, res))))
        gy = g(y)
        sub = lambda e: z3.substitute(e, (x, gy))
        R.assume(z3.ForAll([y], z3.Implies(z3.IsMember(y, res), z3.And(sub(mem), sub(conds), y == sub(val)))))
        return ZV(res, rk)
    # iteration over a sequence
    if gen.ifs:
        raise OutOfReach('filtered comprehension over a symbolic sequence')
    if target == 'set':
        raise OutOfReach('set comprehension over a symbolic sequence')
    rk = ('seq', vk)
    # [f(x, extras) for x in xs] with f a spec function: the generated map_f (no quantifier needed)
    if B.is_seq(s.coll) and z3.is_app(val) and val.num_args() >= 1:
        dn = val.decl().name()
        sf = R.w.specs.get(dn)
        if sf is not None and sf.decl.eq(val.decl()) and val.arg(0).eq(s.coll.e[x]):
            extras = [val.arg(i) for i in range(1, val.num_args())]
            if not any(_mentions(e, x) for e in extras):
                mf = R.w.map_fn(dn)
                return ZV(mf.decl(s.coll.e, *extras), rk)
    res = z3.Const(R.fresh_name('mapped'), R.S.sort_of(rk))
    R.assume(z3.Length(res) == s.n)
    R.assume(z3.ForAll([x], z3.Implies(mem, res[x] == val)))
    return ZV(res, rk)


def _mentions(e, x):
    out = set()
    collect_consts(e, out)
    return any(c.eq(x) for c in out)
