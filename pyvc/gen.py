"""Random native inputs by kind (for the bounded contract cross-check on the real functions)."""
import random
from fractions import Fraction

NAMES = ['a', 'b', 'f', 'x', 'y', 'neg', 'conj', 'disj', 'implies', 'equals', 'all', 'exists', 'true', 'false',
         'zero', 'one', 'bit0', 'bit1', 'of_nat', 'plus', 'minus', 'times', 'uminus', 'real_divide', 'power',
         'Suc', 'less', 'less_eq']


class Gen:
    def __init__(self, seed):
        self.rng = random.Random(seed)
        self.custom = {}

    def gen(self, kind, size=4):
        r = self.rng
        if kind in self.custom:
            return self.custom[kind](self, size)
        if kind == 'int':
            return r.choice([0, 1, 2, -1, 3, 5, r.randint(-4, 9)])
        if kind == 'bool':
            return r.random() < 0.5
        if kind == 'str':
            return r.choice(NAMES)
        if kind == 'real':
            return Fraction(r.randint(-6, 6), r.randint(1, 4))
        if kind == 'Type':
            return self.gen_type(size)
        if kind == 'Term':
            return self.gen_term(size)
        if kind == 'Thm':
            from kernel.thm import Thm
            return Thm(self.gen_term(size), tuple(self.gen_term(2) for _ in range(r.randint(0, 2))))
        if kind == 'ItemID':
            from kernel.proof import ItemID
            return ItemID(tuple(r.randint(-1, 3) for _ in range(r.randint(0, 3))))
        if isinstance(kind, tuple):
            if kind[0] == 'seq':
                return [self.gen(kind[1], max(1, size - 1)) for _ in range(r.randint(0, 3))]
            if kind[0] == 'set':
                return tuple(self.gen(kind[1], max(1, size - 1)) for _ in range(r.randint(0, 3)))
            if kind[0] == 'opt':
                return None if r.random() < 0.3 else self.gen(kind[1], size)
            if kind[0] == 'tuple':
                return tuple(self.gen(k, size) for k in kind[1])
            if kind[0] == 'map':
                return {self.gen(kind[1], 2): self.gen(kind[2], 2) for _ in range(r.randint(0, 3))}
        raise KeyError('no generator for kind %r' % (kind,))

    def gen_type(self, size):
        from kernel.type import STVar, TVar, TConst
        r = self.rng
        c = r.random()
        if size <= 1 or c < 0.35:
            return r.choice([TConst('bool'), TConst('nat'), TConst('int'), TConst('real'), TVar('a'), TVar('b'),
                             STVar('a'), STVar('b')])
        if c < 0.8:
            return TConst('fun', self.gen_type(size - 1), self.gen_type(size - 1))
        if c < 0.9:
            return TConst('list', self.gen_type(size - 1))
        return TConst('prod', self.gen_type(size - 1), self.gen_type(size - 1))

    def small_type(self):
        from kernel.type import TConst, STVar
        r = self.rng
        return r.choice([TConst('bool'), TConst('bool'), TConst('nat'), TConst('fun', TConst('nat'), TConst('bool')),
                         STVar('a')])

    def gen_term(self, size, depth=0):
        from kernel.term import SVar, Var, Const, Comb, Abs, Bound
        r = self.rng
        c = r.random()
        if size <= 1 or c < 0.3:
            k = r.random()
            # few names and few types, shared between Var and SVar, so that clashes of name / kind / type
            # (the interesting cases for abstraction, occurrence tests and substitution) are frequent
            if k < 0.3:
                return Var(r.choice(['x', 'y']), self.small_type())
            if k < 0.55:
                return SVar(r.choice(['x', 'y']), self.small_type())
            if k < 0.8:
                return Const(r.choice(NAMES), self.small_type() if r.random() < 0.5 else self.gen_type(2))
            return Bound(r.randint(-1, 2))
        if c < 0.75:
            return Comb(self.gen_term(size - 1, depth), self.gen_term(size - 1, depth))
        return Abs(r.choice(['x', 'y']), self.gen_type(2), self.gen_term(size - 1, depth + 1))
