"""Command line of the checks: `python -m pyvc.cli <property id> --tier quick|thorough`.

Exit codes: 0 held / 1 violation (VIOLATION line) / 2 undecided / 3 checker error or out of reach.
"""
import argparse
import importlib
import inspect
import json
import multiprocessing as mp
import os
import sys
import time
import traceback

VERIF = os.path.dirname(os.path.dirname(os.path.abspath(__file__)))
sys.path.insert(0, VERIF)

_WORLD = None
_PLAN = None


def get_world(plan):
    global _WORLD
    if _WORLD is None:
        from models.holpy import make_world
        w = make_world()
        w.uf_mul = plan.get('uf_mul', False)
        w.feas_reduced = plan.get('feas_reduced', False)
        w.seq_in_spec = plan.get('seq_in_spec', {})
        if plan.get('no_smt2'):
            # z3 5.1 crashes (segmentation fault in Z3_benchmark_to_smtlib_string) when the formulas of this plan are
            # printed as SMT-LIB text: no fresh-context re-check and no second back end for it
            from pyvc import interp as _I
            _I.FRESH_CTX = False
            _I.OLD_Z3 = '/nonexistent'
        for extra in plan.get('models', []):
            importlib.import_module(extra).declare(w)
        for m in plan['specs']:
            w.load_specs(m)
        for m in plan['contracts']:
            w.load_contracts(m)
        _WORLD = w
    return _WORLD


def _init_worker(plan_id, tier):
    global _PLAN
    import plans
    _PLAN = dict(plans.PLANS[plan_id])
    _PLAN['tier'] = tier


def _verify_one(q):
    from pyvc.verify import verify_function, verify_lemma
    try:
        w = get_world(_PLAN)
        tmo = _PLAN.get('timeout_ms', 20000) if _PLAN['tier'] == 'quick' else max(120000, _PLAN.get('timeout_ms', 0))
        if q.startswith('lemma:'):
            r = verify_lemma(w, q[6:], timeout_ms=tmo)
        else:
            r = verify_function(w, q, timeout_ms=tmo)
        j = r.to_json()
        j['all_obligations'] = [{'label': o['label'], 'status': o['status'], 'path': o['path'],
                                 'secs': o['secs']} for o in r.obligations]
        c = w.contracts.get(q)
        if c is not None:
            j['contract_module'] = c.module.name
        return j
    except Exception as e:       # pragma: no cover
        return {'function': q, 'status': 'error', 'message': traceback.format_exc()[-2000:], 'paths': 0,
                'normal_paths': 0, 'raise_paths': {}, 'obligations': 0, 'discharged': 0, 'failed': [],
                'unknown': [], 'secs': 0.0, 'solver_secs': 0.0, 'source_hash': '', 'all_obligations': []}


def contract_class_name(w, q):
    """Name of the side-car class holding the contract of q."""
    c = w.contracts[q]
    import ast
    for cname, ci in c.module.classes.items():
        for d in ci.node.decorator_list:
            if isinstance(d, ast.Call) and getattr(d.func, 'id', None) == 'contract' and \
                    ast.literal_eval(d.args[0]) == q:
                return cname
    return None


def load_known(pid):
    p = os.path.join(VERIF, 'known_findings.json')
    if not os.path.exists(p):
        return []
    with open(p) as f:
        data = json.load(f)
    return [k for k in data.get('findings', []) if k.get('property') == pid and k.get('status') == 'known']


def load_ledger():
    """Obligations discharged on the unchanged tree, with the hash of each function's source at that time."""
    p = os.path.join(VERIF, 'ledger.json')
    if not os.path.exists(p):
        return {}
    with open(p) as f:
        return json.load(f)


def matches_known(known, function, label):
    for k in known:
        if k.get('function') == function and (k.get('obligation') is None or k.get('obligation') in label):
            return k
    return None


def native_crosscheck(w, plan, targets, seed, n_per_fn, results):
    """Bounded stand-in / encoder cross-check: random native inputs on the real functions, contract
    clauses evaluated natively.  Returns (evaluations, nontrivial distinct, violations list, samples)."""
    from pyvc import native
    from pyvc.gen import Gen
    native.setup_repo_path()
    g = Gen(seed)
    for mod in plan.get('generators', []):
        importlib.import_module(mod).install(g)
    evals = 0
    distinct = set()
    violations = []
    samples = []
    skipped = []
    for q in targets:
        if q.startswith('lemma:') or q not in w.contracts:
            continue
        c = w.contracts[q]
        if c.captures or c.trusted:
            continue
        try:
            fn = native.resolve(q)
            cm = importlib.import_module(c.module.name)
            ccls = getattr(cm, contract_class_name(w, q))
        except Exception as e:
            skipped.append('%s: %s' % (q, e))
            continue
        mi, cls, chain = w.repo.lookup_function(q)
        if len(chain) > 1:
            continue
        node = chain[-1]
        pnames = [a.arg for a in node.args.args]
        if node.args.vararg or node.args.kwonlyargs:
            skipped.append(q + ': varargs')
            continue
        if cls is not None and 'property' in cls.decorators(node.name):
            prop = fn

            def fn(self_, _p=prop):
                return _p.fget(self_)
        tried = 0
        done = 0
        while done < n_per_fn and tried < n_per_fn * 6:
            tried += 1
            try:
                args = {p: g.gen(c.params[p], g.rng.choice([1, 2, 3, 4, 5])) for p in pnames}
            except KeyError as e:
                skipped.append('%s: %s' % (q, e))
                break
            env = dict(args)
            try:
                ok = True
                for lbl, rf in c.requires:
                    f = getattr(ccls, lbl)
                    if not f(*[env[n] for n in inspect.signature(f).parameters]):
                        ok = False
                        break
                if not ok:
                    continue
            except Exception:
                continue
            olds = {}
            import copy
            for m in c.modifies:
                olds['old_' + m] = copy.copy(args[m])
            try:
                result = fn(*[args[p] for p in pnames])
            except Exception as e:
                evals += 1
                done += 1
                # must_raise / plain rejection: nothing to check on exceptional exit
                continue
            evals += 1
            done += 1
            env.update(olds)
            env['result'] = result
            key = (q, native.describe(args))
            distinct.add(key)
            for lbl, ef in c.ensures:
                f = getattr(ccls, lbl)
                names = list(inspect.signature(f).parameters)
                if any(n in c.ghost for n in names):
                    continue
                try:
                    holds = f(*[env[n] for n in names])
                except Exception as e:
                    skipped.append('%s.%s raised %s on %s' % (q, lbl, type(e).__name__, native.describe(args)))
                    continue
                if not holds:
                    violations.append({'function': q, 'clause': lbl,
                                       'inputs': {k: native.describe(v) for k, v in args.items()},
                                       'result': native.describe(result)})
            for lbl, mf in c.must_raise:
                f = getattr(ccls, lbl)
                names = list(inspect.signature(f).parameters)
                try:
                    if f(*[env[n] for n in names]):
                        violations.append({'function': q, 'clause': lbl, 'inputs': {k: native.describe(v) for k, v in args.items()},
                                           'result': 'returned normally: ' + native.describe(result)})
                except Exception:
                    pass
            if len(samples) < 6 and done == 1:
                samples.append({'function': q, 'inputs': {k: native.describe(v)[:120] for k, v in args.items()},
                                'result': native.describe(result)[:120]})
    return evals, len(distinct), violations, samples, skipped


def main(argv=None):
    ap = argparse.ArgumentParser()
    ap.add_argument('property')
    ap.add_argument('--tier', default=os.environ.get('VERIF_TIER', 'quick'))
    ap.add_argument('--replay', default=None)
    ap.add_argument('--jobs', type=int, default=12)
    ap.add_argument('--only', default=None)
    ap.add_argument('--record-ledger', action='store_true',
                    help='record the obligations discharged on the current tree in ledger.json (done by hand on '
                         'the unchanged tree and committed; never at check time)')
    args = ap.parse_args(argv)
    pid = args.property
    tier = args.tier if args.tier in ('quick', 'thorough') else 'quick'
    seed = int(os.environ.get('VERIF_SEED', '0') or 0)
    import plans
    if args.replay:
        return replay_file(args.replay)
    if pid not in plans.PLANS:
        print('unknown property', pid)
        return 3
    plan = dict(plans.PLANS[pid])
    plan['tier'] = tier
    if tier == 'thorough':
        os.environ['PYVC_FRESH'] = '1'       # every solver answer is re-decided by a fresh solver
    t0 = time.time()
    _init_worker(pid, tier)
    w = get_world(plan)
    targets = list(plan['targets']) + (list(plan.get('thorough_targets', [])) if tier == 'thorough' else [])
    if args.only:
        targets = [t for t in targets if args.only in t]
    # ---- deductive part ----
    results = []
    if targets:
        # a worker that dies (a crash inside the solver library) must not hang the check: ProcessPoolExecutor reports a
        # broken pool, mp.Pool.map would wait for the lost task for ever.  A crashed target is a checker error (exit 3).
        from concurrent.futures import ProcessPoolExecutor
        from concurrent.futures.process import BrokenProcessPool
        results = []
        todo = list(targets)
        for attempt in range(3):
            if not todo:
                break
            done = {}
            try:
                with ProcessPoolExecutor(min(args.jobs, max(1, len(todo))), initializer=_init_worker,
                                         initargs=(pid, tier)) as ex:
                    futs = {q: ex.submit(_verify_one, q) for q in todo}
                    for q, f in futs.items():
                        try:
                            done[q] = f.result()
                        except BrokenProcessPool:
                            pass
            except BrokenProcessPool:
                pass
            results.extend(done[q] for q in todo if q in done)
            todo = [q for q in todo if q not in done]
        for q in todo:
            results.append({'function': q, 'status': 'error', 'message': 'worker process died (crash in the solver library) '
                            'three times', 'paths': 0, 'normal_paths': 0, 'raise_paths': {}, 'obligations': 0,
                            'discharged': 0, 'failed': [], 'unknown': [], 'secs': 0.0, 'solver_secs': 0.0,
                            'source_hash': '', 'all_obligations': []})
        order = {q: i for i, q in enumerate(targets)}
        results.sort(key=lambda j: order.get(j['function'], 0))
    # ---- custom (syntactic frame) obligations of the plan ----
    for name in plan.get('custom', []):
        modname, fname = name.rsplit('.', 1)
        tc = time.time()
        try:
            obs = getattr(importlib.import_module(modname), fname)(w)
            j = {'function': name, 'status': 'failed' if any(o['status'] == 'failed' for o in obs) else 'ok',
                 'message': '', 'paths': 1, 'normal_paths': 1, 'raise_paths': {}, 'obligations': len(obs),
                 'discharged': sum(1 for o in obs if o['status'] == 'proved'),
                 'failed': [{'label': o['label'], 'path': '', 'model': None, 'claim': o['detail'],
                             'witness': o.get('witness')} for o in obs if o['status'] == 'failed'],
                 'unknown': [], 'secs': round(time.time() - tc, 3), 'solver_secs': 0.0, 'source_hash': '',
                 'all_obligations': [{'label': o['label'], 'status': o['status'], 'path': '', 'secs': 0.0}
                                     for o in obs]}
        except Exception:
            j = {'function': name, 'status': 'error', 'message': traceback.format_exc()[-1500:], 'paths': 0,
                 'normal_paths': 0, 'raise_paths': {}, 'obligations': 0, 'discharged': 0, 'failed': [],
                 'unknown': [], 'secs': 0.0, 'solver_secs': 0.0, 'source_hash': '', 'all_obligations': []}
        results.append(j)
    known = load_known(pid)
    violations = []
    known_hits = []
    undecided = []
    broken = []
    n_obl = 0
    n_dis = 0
    solver_s = 0.0
    n_bounded = 0
    for j in results:
        if j.get('bounded'):
            # bounded stand-in (enumerated sequence lengths): reported, never counted as proved
            n_bounded += j['discharged']
        else:
            n_obl += j['obligations']
            n_dis += j['discharged']
        solver_s += j['solver_secs']
        if j['status'] == 'failed':
            for f in j['failed']:
                k = matches_known(known, j['function'], f['label'])
                if k is not None:
                    known_hits.append((k, j, f))
                else:
                    violations.append((j, f))
        if j['status'] == 'undecided' or j['unknown']:
            undecided.append(j)
        if j['status'] in ('error', 'out_of_reach'):
            broken.append(j)
    # ---- ledger: obligations discharged on the recorded (unchanged) tree ----
    ledger_all = load_ledger()
    if args.record_ledger:
        ledger_all[pid] = {}
        for j in results:
            proved = sorted({o['label'] for o in j.get('all_obligations', []) if o['status'] == 'proved'} -
                            {o['label'] for o in j.get('all_obligations', []) if o['status'] != 'proved'})
            ledger_all[pid][j['function']] = {'source_hash': j.get('source_hash', ''), 'proved': proved}
        with open(os.path.join(VERIF, 'ledger.json'), 'w') as fh:
            json.dump(ledger_all, fh, indent=1, sort_keys=True)
        print('ledger recorded for %s: %d functions' % (pid, len(ledger_all[pid])))
        return 0
    ledger = ledger_all.get(pid, {})
    changed = sorted(j['function'] for j in results if j['function'] in ledger and j.get('source_hash') and
                     ledger[j['function']]['source_hash'] != j['source_hash'])
    if changed:
        # the source of a function under contract differs from the recorded tree: an obligation that was discharged
        # there and is not discharged now is reported as a violation (with a native search for a failing input);
        # with unchanged sources an 'unknown' stays an UNDECIDED (solver budget), never a violation
        for j in list(undecided):
            led = ledger.get(j['function'])
            if not led or j['function'] not in changed:
                continue
            lost = [u for u in j['unknown'] if u['label'] in led['proved']]
            for u in lost:
                violations.append((j, {'label': u['label'], 'path': u.get('path', ''), 'model': None,
                                       'claim': 'discharged on the recorded tree (ledger.json), not discharged after '
                                                'the change of %s: solver says %s' % (j['function'], u.get('detail')),
                                       'verifier_status': 'unknown: %s' % u.get('detail')}))
    # ---- native cross-check / bounded stand-in on the same contracts ----
    n_native = plan.get('native_per_fn', {'quick': 60, 'thorough': 600})[tier]
    evals = nontriv = 0
    nat_viol, nat_samples, nat_skipped = [], [], []
    if n_native:
        try:
            evals, nontriv, nat_viol, nat_samples, nat_skipped = native_crosscheck(w, plan, targets, seed, n_native,
                                                                                   results)
        except Exception as e:
            nat_skipped.append('native cross-check crashed: %s' % traceback.format_exc()[-800:])
    # ---- extra bounded stand-ins registered by the plan ----
    bounded_reports = []
    # development aid: `--only <function>` together with PYVC_NO_BOUNDED=1 skips the stand-ins (never used by the registered commands)
    for name in ([] if (args.only and os.environ.get('PYVC_NO_BOUNDED')) else plan.get('bounded', [])):
        modname, fname = name.rsplit('.', 1)
        try:
            rep = getattr(importlib.import_module(modname), fname)(tier=tier, seed=seed)
        except Exception as e:
            rep = {'name': name, 'error': traceback.format_exc()[-1500:], 'evaluations': 0,
                   'distinct_nontrivial': 0, 'violations': [], 'samples': [], 'rule': 'crashed'}
            broken.append({'function': name, 'status': 'error', 'message': rep['error']})
        bounded_reports.append(rep)
    # ---- report ----
    os.makedirs(os.path.join(VERIF, 'replays'), exist_ok=True)
    os.makedirs(os.path.join(VERIF, 'evidence'), exist_ok=True)
    exit_code = 0
    nviol = 0
    from pyvc import native
    for k, j, f in known_hits:
        print('KNOWN-FINDING: property=%s %s (%s)' % (pid, k.get('what', ''), f['label']))
    reported = set()
    for j, f in violations:
        keyv = (j['function'], f['label'])
        if keyv in reported:
            continue
        reported.add(keyv)
        nviol += 1
        rp = os.path.join(VERIF, 'replays', '%s-%s-%d.json' % (pid, j['function'].replace('.', '_'), nviol))
        rep = None
        if f['label'].startswith('post:') and f.get('model'):
            try:
                q = j['function']
                mi, cls, chain = w.repo.lookup_function(q)
                if len(chain) == 1:
                    pn = [a.arg for a in chain[-1].args.args]
                    rep = native.replay(q, j.get('contract_module'), contract_class_name(w, q),
                                        f['label'].rsplit(':', 1)[1].split('#')[0], f['model'], pn)
            except Exception as e:
                rep = {'confirmed': None, 'detail': 'replay crashed: %s' % e}
        if f.get('witness'):
            try:
                native.setup_repo_path()
                wm, wf = f['witness'].rsplit('.', 1)
                rep = getattr(importlib.import_module(wm), wf)()
            except Exception as e:
                rep = {'confirmed': None, 'detail': 'witness crashed: %s' % e}
        confirmed = bool(rep and rep.get('confirmed'))
        if not confirmed:
            # no input from the solver model (closure, frame or pre-condition obligation, or a model that
            # does not replay): bounded native search for a failing input of the function itself or of the
            # functions enclosing it / named by the plan as its public entry points
            cands = []
            parts = j['function'].split('.')
            for k in range(len(parts), 1, -1):
                q2 = '.'.join(parts[:k])
                if q2 in w.contracts and not w.contracts[q2].captures:
                    cands.append(q2)
            cands += [c for c in plan.get('entry_points', {}).get(j['function'], []) if c in w.contracts]
            for q2 in cands:
                try:
                    _, _, sv, _, _ = native_crosscheck(w, plan, [q2], seed + 17, 4000, results)
                except Exception:
                    sv = []
                if sv:
                    rep = {'confirmed': True, 'detail': 'failing input found by native search on %s (clause %s)' % (
                        q2, sv[0]['clause']), 'inputs': sv[0]['inputs'], 'result': sv[0]['result'],
                        'solver_model_replay': rep}
                    confirmed = True
                    break
        with open(rp, 'w') as fh:
            json.dump({'property': pid, 'obligation': f['label'], 'function': j['function'], 'path': f['path'],
                       'claim': f.get('claim'),
                       'verifier_output': {'status': f.get('verifier_status', 'sat'), 'model': f.get('model')},
                       'native_replay': rep, 'replay_cmd': './check %s --replay %s' % (pid, rp)}, fh, indent=1,
                      default=str)
        print('VIOLATION property=%s replay=%s%s' % (pid, rp, '' if confirmed else ' no-failing-input-found'))
        exit_code = 1
    for v in nat_viol:
        k = matches_known(known, v['function'], v['clause'])
        if k is not None:
            print('KNOWN-FINDING: property=%s %s (native %s)' % (pid, k.get('what', ''), v['clause']))
            continue
        nviol += 1
        rp = os.path.join(VERIF, 'replays', '%s-native-%s-%d.json' % (pid, v['function'].replace('.', '_'), nviol))
        with open(rp, 'w') as fh:
            json.dump({'property': pid, 'obligation': 'native:%s:%s' % (v['function'], v['clause']),
                       'function': v['function'], 'native_replay': {'confirmed': True, 'inputs': v['inputs'],
                                                                   'result': v['result']}}, fh, indent=1)
        print('VIOLATION property=%s replay=%s' % (pid, rp))
        exit_code = 1
    printed_known = set()
    for rep in bounded_reports:
        for v in rep.get('violations', []):
            k = matches_known(known, v.get('function'), v.get('clause', ''))
            if k is not None:
                if id(k) not in printed_known:
                    printed_known.add(id(k))
                    print('KNOWN-FINDING: property=%s %s' % (pid, k.get('what', '')))
                continue
            nviol += 1
            rp = os.path.join(VERIF, 'replays', '%s-bounded-%d.json' % (pid, nviol))
            with open(rp, 'w') as fh:
                json.dump({'property': pid, 'obligation': 'bounded:%s' % rep.get('name'), 'witness': v}, fh,
                          indent=1, default=str)
            print('VIOLATION property=%s replay=%s' % (pid, rp))
            exit_code = 1
    if exit_code == 0 and undecided:
        for j in undecided:
            for u in j['unknown'][:3]:
                print('UNDECIDED obligation=%s function=%s (%s)' % (u['label'], j['function'], u['detail']))
        exit_code = 2
    if exit_code == 0 and broken:
        for j in broken:
            print('OUT-OF-REACH function=%s: %s' % (j['function'], j['message'][:600]))
        exit_code = 3
    wall = time.time() - t0
    write_evidence(pid, plan, tier, seed, results, n_obl, n_dis, solver_s, evals, nontriv, nat_samples,
                   nat_skipped, bounded_reports, known_hits, nviol, wall, w, exit_code)
    print('%s %s: functions=%d obligations=%d discharged=%d native_evals=%d violations=%d exit=%d (%.1fs)' % (
        pid, tier, len(results), n_obl, n_dis, evals, nviol, exit_code, wall))
    return exit_code


def write_evidence(pid, plan, tier, seed, results, n_obl, n_dis, solver_s, evals, nontriv, nat_samples,
                   nat_skipped, bounded_reports, known_hits, nviol, wall, w, exit_code):
    level = plan.get('level', 'proof')
    samples = []
    for j in results[:400]:
        for o in j.get('all_obligations', [])[:2]:
            if len(samples) < 12:
                samples.append({'function': j['function'], 'obligation': o['label'], 'path': o['path'],
                                'status': o['status']})
    for r in bounded_reports:
        for smp in r.get('samples', [])[:3]:
            samples.append({'bounded': r.get('name'), 'case': smp})
    b_evals = evals + sum(r.get('evaluations', 0) for r in bounded_reports)
    b_non = nontriv + sum(r.get('distinct_nontrivial', 0) for r in bounded_reports)
    cov = {
        'obligations': n_obl, 'discharged': n_dis,
        'checker_cmd': 'cd /verif && ./check %s --tier %s' % (pid, tier),
        'trusted_base': plan.get('trusted_base', []) + sorted(set(w.assumed)),
        'functions_under_contract': [{'function': j['function'], 'status': j['status'], 'paths': j['paths'],
                                      'obligations': j['obligations'], 'discharged': j['discharged'],
                                      'source_hash': j['source_hash'], 'secs': j['secs'],
                                      'bounded': j.get('bounded')} for j in results],
        'bounded_lemma_instances': sum(j['discharged'] for j in results if j.get('bounded')),
        'per_backend': {'z3-%s' % __import__('z3').get_version_string(): n_dis},
        'solver_s': round(solver_s, 2),
        'out_of_reach': [{'function': j['function'], 'why': j['message'][:300]} for j in results
                         if j['status'] in ('out_of_reach', 'error')],
        'residual_of_known_findings': [{'function': j['function'], 'obligation': f['label'], 'what': k.get('what')}
                                       for k, j, f in known_hits],
        'samples': samples + nat_samples[:4],
        'evaluations': b_evals, 'distinct_nontrivial': b_non,
        'rule': plan.get('rule', 'proof obligations: one per path and contract clause of each function under '
                                 'contract; bounded part: random native inputs by kind on the real functions, '
                                 'distinct = distinct argument tuples on which the function returned normally'),
        'bounded': [{k: v for k, v in r.items() if k != 'violations'} for r in bounded_reports],
        'native_crosscheck_skipped': nat_skipped[:20],
        'exhaustive': False,
        'explanation': plan.get('explanation', ''),
        'exit_code': exit_code,
    }
    if level != 'proof':
        cov.pop('trusted_base') if False else None
    ev = {'property_id': pid, 'tier': tier, 'seed': seed, 'level': level, 'coverage': cov,
          'assumptions': plan.get('assumptions', []) + sorted(set(w.assumed)), 'wall_s': round(wall, 2),
          'violations': nviol}
    with open(os.path.join(VERIF, 'evidence', pid + '.json'), 'w') as fh:
        json.dump(ev, fh, indent=1, default=str)


def replay_file(path):
    from pyvc import native
    with open(path) as f:
        d = json.load(f)
    print(json.dumps(d.get('native_replay') or d.get('witness'), indent=1, default=str))
    return 0


if __name__ == '__main__':
    sys.exit(main())
