"""Symbolic executor of pyvc: runs one path of a Python function over symbolic values.

Path enumeration is by re-execution: every non-trivial branch asks `choose(cond)`, which
follows the recorded decision prefix and schedules the alternative for a later run.
"""
import ast
import time
import z3

from .values import *
from .world import World, Contract, kind_of_annotation, parse_kind

MAX_INLINE_DEPTH = 60
import os as _os
import sys
DEBUG_DUMP = _os.environ.get("PYVC_DUMP")
DEBUG_CHOOSE = _os.environ.get("PYVC_CHOOSE")
FRESH_RECHECK = bool(_os.environ.get("PYVC_FRESH"))    # thorough tier: every obligation also by a fresh solver


OLD_Z3 = '/usr/bin/z3'
FRESH_CTX = not _os.environ.get('PYVC_NO_FRESH_CTX')
CONCRETISE = not _os.environ.get('PYVC_NO_CONCRETISE')
FEAS_REDUCED = not _os.environ.get('PYVC_NO_FEAS_REDUCED')
FEAS_SECOND_MS = int(_os.environ.get('PYVC_FEAS_SECOND_MS', '300'))
# per-function solver economy (set by verify_function / verify_lemma): once two obligations of a function have come back
# `unknown` after the whole retry ladder, or the function has used its wall-clock budget, the remaining obligations get
# the short attempts only.  An `unknown` is never a verdict about the code (exit 2, or a ledger regression on changed
# source); this only keeps a check on a changed tree from running for half an hour.
FN_STATE = {'start': 0.0, 'unknown': 0, 'budget_s': 1e9}
_REC_CACHE = {}
_REC_KEEP = []      # keeps the formulas alive so that ids are not reused


def fresh_ctx_check(sol, timeout_ms):
    """Decide the solver's assertions in a NEW z3 context, from their SMT-LIB text.  The working context holds
    every recursive spec function of the plan, and z3's recursive-function plugin gets slower with each of them
    even when a query does not mention them (measured: 14-20 s in the working context, 0.01 s in a new one for
    the same text).  The text contains only what the query mentions.  Returns 'unsat' | 'sat' | 'unknown'."""
    if not FRESH_CTX:
        return 'unknown'
    try:
        txt = sol.to_smt2()
        key = (hash(txt), len(txt), int(timeout_ms))
        if key in _FRESH_CACHE:
            return _FRESH_CACHE[key]
        out = _fresh_ctx_check(txt, timeout_ms)
        if len(_FRESH_CACHE) > 20000:
            _FRESH_CACHE.clear()
        _FRESH_CACHE[key] = out
        return out
    except Exception:
        return 'unknown'


_FRESH_CACHE = {}     # same query text (paths are re-executed from the start, so prefixes repeat) -> same answer


def _fresh_ctx_check(txt, timeout_ms):
    try:
        ctx = z3.Context()
        s2 = z3.Solver(ctx=ctx)
        s2.set('timeout', int(timeout_ms))
        s2.from_string(txt)
        r = s2.check()
        out = 'unsat' if r == z3.unsat else 'sat' if r == z3.sat else 'unknown'
        del s2
        del ctx
        return out
    except Exception:
        return 'unknown'


def second_backend_unsat(sol, secs):
    """True iff /usr/bin/z3 answers `unsat` on the SMT-LIB text of the solver's assertions within `secs`."""
    import subprocess
    import tempfile
    if not _os.path.exists(OLD_Z3) or _os.environ.get('PYVC_NO_SECOND_BACKEND'):
        return False
    try:
        with tempfile.NamedTemporaryFile('w', suffix='.smt2', delete=False) as fh:
            fh.write(sol.to_smt2())
            path = fh.name
        try:
            out = subprocess.run([OLD_Z3, '-T:%d' % secs, path], capture_output=True, text=True,
                                 timeout=secs + 5).stdout
        finally:
            _os.unlink(path)
        return out.strip().splitlines()[:1] == ['unsat']
    except Exception:
        return False


class Env:
    def __init__(self, module, parent=None, cls=None):
        self.vars = {}
        self.parent = parent      # enclosing function Env (closures)
        self.module = module      # ModuleInfo for globals
        self.cls = cls
        self.nonlocals = set()
        self.globals_decl = set()

    def lookup(self, name):
        e = self
        while e is not None:
            if name in e.vars:
                return e.vars[name]
            e = e.parent
        raise KeyError(name)

    def has(self, name):
        e = self
        while e is not None:
            if name in e.vars:
                return True
            e = e.parent
        return False

    def set(self, name, val):
        if name in self.nonlocals:
            e = self.parent
            while e is not None:
                if name in e.vars:
                    e.vars[name] = val
                    return
                e = e.parent
        self.vars[name] = val

    def owner(self, name):
        e = self
        while e is not None:
            if name in e.vars:
                return e
            e = e.parent
        return None


class Frame:
    def __init__(self, fv, env, contract=None):
        self.fv = fv
        self.env = env
        self.contract = contract
        self.loop_ord = {}
        self.comp_ord = {}
        self.try_handlers = []     # stack of lists of exception names caught
        if fv is not None and fv.node is not None:
            n = 0
            k = 0
            for node in _walk_no_nested(fv.node):
                if isinstance(node, (ast.For, ast.While)):
                    self.loop_ord[id(node)] = n
                    n += 1
                elif isinstance(node, (ast.GeneratorExp, ast.ListComp, ast.SetComp)):
                    self.comp_ord[id(node)] = k
                    k += 1


def _walk_no_nested(fn):
    """Walk the body of fn in source order without descending into nested defs/lambdas."""
    todo = list(reversed(fn.body))
    while todo:
        node = todo.pop()
        yield node
        if isinstance(node, (ast.FunctionDef, ast.Lambda, ast.ClassDef)):
            continue
        todo.extend(reversed(list(ast.iter_child_nodes(node))))


class Obligation:
    def __init__(self, label, kind, status, model=None, detail='', secs=0.0, trace=None, claim=None):
        self.label = label
        self.kind = kind
        self.status = status       # 'proved' | 'failed' | 'unknown'
        self.model = model
        self.detail = detail
        self.secs = secs
        self.trace = trace
        self.claim = claim


class Run:
    """One execution path."""

    def __init__(self, world, prefix, timeout_ms=20000, feas_timeout_ms=1500):
        self.w = world
        self.prefix = list(prefix)
        self.trace = []
        self.pending = []
        self.timeout_ms = timeout_ms
        self.feas_timeout_ms = feas_timeout_ms
        self.seq_known = {}
        self.pc = []
        self.obligations = []
        self.fresh_n = 0
        self.spec_mode = 0
        self.total_access = 0
        self.frames = []
        self.inline_stack = []
        self.target = None          # qualname under verification
        self.target_measure = None
        self.inputs = {}            # name -> value (symbolic inputs of the target, for models)
        self.solver_secs = 0.0
        self.lemma_measure = None
        self.feas_gave_up = 0
        self.known = {}
        self.placeholders = []
        self.no_feas = False
        self.no_prove = False
        self.notes = []

    # ------------------------------------------------------------ path control
    def fresh_name(self, hint):
        self.fresh_n += 1
        return '%s!%d' % (hint, self.fresh_n)

    def assume(self, cond):
        if isinstance(cond, bool):
            if not cond:
                raise PathEnd('assume False')
            return
        self.pc.append(cond)
        self.note_known(cond)

    def note_known(self, cond):
        c = z3.simplify(cond)
        if z3.is_and(c):
            for ch in c.children():
                self.note_known(ch)
            return
        if z3.is_not(c):
            self.known[c.arg(0).sexpr()] = False
        else:
            self.known[z3.Not(c).sexpr()] = False
        self.known[c.sexpr()] = True

    def _solver(self, extra, timeout_ms):
        """A fresh solver over the path condition (no push/pop: the incremental mode of z3 was seen to
        answer `sat` on unsatisfiable queries and to crash with recursive functions and lambdas)."""
        s = z3.Solver()
        s.set('timeout', timeout_ms)
        s.add(self.pc)
        s.add(extra)
        return s

    def mentions_rec(self, f):
        """f applies a recursive spec function (cached by formula id)"""
        key = f.get_id()
        r = _REC_CACHE.get(key)
        if r is None:
            r = False
            seen = set()
            todo = [f]
            while todo:
                x = todo.pop()
                if x.get_id() in seen:
                    continue
                seen.add(x.get_id())
                if z3.is_quantifier(x):
                    todo.append(x.body())
                    continue
                if z3.is_app(x):
                    if x.decl().kind() == z3.Z3_OP_RECURSIVE:
                        r = True
                        break
                    todo.extend(x.children())
            _REC_CACHE[key] = r
            _REC_KEEP.append(f)
        return r

    def feasible(self, cond):
        t0 = time.time()
        reduced = False
        if FEAS_REDUCED and getattr(self.w, 'feas_reduced', False) and self.mentions_rec_any():
            reduced = True
            # path pruning from the hypotheses that do not mention recursive spec functions only: satisfiability
            # WITH them needs a model of the recursive functions, which z3 rarely finds within the budget (answer
            # `unknown` after the full budget, i.e. "feasible" anyway).  Fewer hypotheses = more paths, never fewer.
            s = z3.Solver()
            s.set('timeout', self.feas_timeout_ms)
            s.add([f for f in self.pc if not self.mentions_rec(f)])
            s.add(cond)
        else:
            s = self._solver(cond, self.feas_timeout_ms)
        if DEBUG_DUMP:
            with open(DEBUG_DUMP, 'w') as fh:
                fh.write(s.to_smt2())
        if FRESH_CTX:
            fr = fresh_ctx_check(s, self.feas_timeout_ms)
            r = z3.unsat if fr == 'unsat' else z3.sat if fr == 'sat' else z3.unknown
        else:
            r = s.check()
        if reduced and r != z3.unsat and FEAS_SECOND_MS:
            # satisfiable without the hypotheses about recursive functions: a short attempt with all hypotheses
            # (prunes the branches that contract post-conditions such as is_comb's exclude; `unknown` = feasible)
            if fresh_ctx_check(self._solver(cond, FEAS_SECOND_MS), FEAS_SECOND_MS) == 'unsat':
                r = z3.unsat
        self.solver_secs += time.time() - t0
        if DEBUG_DUMP and time.time() - t0 > 1.0:
            sys.stderr.write('SLOW feasibility %.1fs %s: %s\n' % (time.time() - t0, r, str(cond)[:300]))
        if r == z3.unknown:
            # satisfiability of this path condition is beyond the budget (typically: a model of a
            # recursive spec function is needed); further pruning queries on this path are pointless
            self.feas_gave_up += 1
        return r != z3.unsat

    def mentions_rec_any(self):
        return any(self.mentions_rec(f) for f in self.pc)

    def choose(self, cond):
        if isinstance(cond, bool):
            return cond
        cond = z3.simplify(cond)
        if z3.is_true(cond):
            return True
        if z3.is_false(cond):
            return False
        # a condition that is literally on the path already (or whose negation is) needs no solver and is
        # not a decision point; the set of known literals evolves identically on re-execution
        key = cond.sexpr()
        if key in self.known:
            return self.known[key]
        i = len(self.trace)
        if i < len(self.prefix):
            d = self.prefix[i]
        elif self.no_feas:
            # while a recursive spec function is being defined its own symbol has no definition yet,
            # so no solver-based pruning: take both branches
            d = True
            self.pending.append([x for x in self.trace] + [False])
        else:
            if self.feas_gave_up >= 2:
                can_t = can_f = True         # no pruning any more on this path (sound: more paths, not fewer)
            else:
                can_t = self.feasible(cond)
                can_f = self.feasible(z3.Not(cond))
            if can_t and can_f:
                d = True
                self.pending.append([x for x in self.trace] + [False])
            elif can_t:
                d = True
            elif can_f:
                d = False
            else:
                raise PathEnd('infeasible')
        self.trace.append(d)
        if DEBUG_CHOOSE:
            sys.stderr.write('CHOOSE %s %s: %s\n' % (''.join('T' if x else 'F' for x in self.trace), d, str(cond)[:200].replace('\n', ' ')))
        self.assume(cond if d else z3.Not(cond))
        if CONCRETISE:
            self.note_length(cond, d)
        return d

    def prove(self, claim, label, kind):
        if self.no_prove:
            return
        if isinstance(claim, bool):
            claim = z3.BoolVal(claim)
        t0 = time.time()
        sol = self._solver(z3.Not(claim), min(self.timeout_ms, 4000))
        if DEBUG_DUMP:
            with open(DEBUG_DUMP + '.prove.' + label.replace(':', '_').replace('/', '_')[-60:], 'w') as fh:
                fh.write(sol.to_smt2())
        model = None
        detail = ''
        fr = fresh_ctx_check(sol, min(self.timeout_ms, 3000))
        if fr == 'unsat':
            r = z3.unsat
            detail = 'fresh-context'
        elif fr == 'unknown' and second_backend_unsat(sol, 6):
            r = z3.unsat
            detail = 'backend:z3-4.8.12'
        else:
            r = sol.check()
        if r == z3.sat:
            try:
                model = sol.model()
            except z3.Z3Exception:
                model = None
            status = 'failed'
        elif r == z3.unsat:
            status = 'proved'
        else:
            status = 'unknown'
            detail = sol.reason_unknown()
            if DEBUG_DUMP:
                with open(DEBUG_DUMP + '.unknown', 'w') as fh:
                    fh.write(sol.to_smt2())
            economy = FN_STATE['unknown'] >= 2 or time.time() - FN_STATE['start'] > FN_STATE['budget_s']
            # second back end: the SMT-LIB text of the same query given to /usr/bin/z3 (4.8.12), whose sequence
            # solver decides many small seq + recursive-function queries at once on which 5.1 gives up.
            # Only `unsat` is taken from it (sound: the query is the same text); anything else falls through.
            if not economy and second_backend_unsat(sol, max(4, self.timeout_ms // 2000)):
                status = 'proved'
                detail = 'backend:z3-4.8.12'
            # z3's search is unstable on some small queries (dropping any one redundant hypothesis makes
            # them immediate).  Proving the claim from FEWER hypotheses is sound, so retry with the
            # hypotheses in reverse order and with one hypothesis left out at a time (short budget each).
            n = len(self.pc)
            variants = [list(reversed(self.pc))]
            for k in list(range(n - 1, max(n - 9, -1), -1)) + list(range(0, min(4, n))):
                variants.append(self.pc[:k] + self.pc[k + 1:])
            for hyps in (variants if status == 'unknown' and not economy else []):
                s2 = z3.Solver()
                s2.set('timeout', max(2000, self.timeout_ms // 8))
                s2.add(hyps)
                s2.add(z3.Not(claim))
                if s2.check() == z3.unsat:
                    status = 'proved'
                    detail = 'proved from a subset / reordering of the hypotheses after a timeout'
                    break
            if status == 'unknown' and economy:
                detail = (detail or '') + ' (short attempts only: earlier obligations of this function were left open / function budget used)'
            if status == 'unknown' and self.timeout_ms > 4000 and not economy:
                # last resort: the full budget on the original query
                s3 = self._solver(z3.Not(claim), self.timeout_ms)
                r3 = s3.check()
                if r3 == z3.unsat:
                    status = 'proved'
                elif r3 == z3.sat:
                    status = 'failed'
                    try:
                        model = s3.model()
                    except z3.Z3Exception:
                        model = None
                else:
                    detail = s3.reason_unknown()
        if status == 'unknown':
            FN_STATE['unknown'] += 1
        secs = time.time() - t0
        self.solver_secs += secs
        ob = Obligation(label, kind, status, model=self.extract_model(model) if model is not None else None,
                        detail=detail, secs=secs, trace=list(self.trace), claim=str(z3.simplify(claim))[:400])
        self.obligations.append(ob)
        # continue the path under the claim (avoid cascades)
        self.assume(claim)
        return ob

    def extract_model(self, model):
        from . import native
        out = {}
        for name, val in self.inputs.items():
            try:
                out[name] = native.model_tree(self, model, val)
            except Exception as e:   # pragma: no cover
                out[name] = {'opaque': '<%s: %s>' % (type(e).__name__, e)}
        return out

    def model_value(self, model, val):
        if isinstance(val, ZV):
            return (str(model.eval(val.e, model_completion=True)), repr(val.kind))
        if isinstance(val, ObjV):
            return {k: self.model_value(model, v) for k, v in val.fields.items()}
        if isinstance(val, OptV):
            isn = model.eval(val.isnone, model_completion=True)
            if z3.is_true(isn):
                return None
            return self.model_value(model, val.val)
        if isinstance(val, MapV):
            return {'arr': str(model.eval(val.arr, model_completion=True))}
        if isinstance(val, (TupleV, ListV)):
            return [self.model_value(model, x) for x in val.items]
        return repr(val)

    # ---- finite maps ----
    def map_has(self, m, key):
        srt = self.S.opt_sort(m.vkind)
        return z3.Not(srt.recognizer(0)(z3.Select(m.arr, self.z(key, m.kkind))))

    def map_get(self, m, key):
        srt = self.S.opt_sort(m.vkind)
        return self.wrap(srt.accessor(1, 0)(z3.Select(m.arr, self.z(key, m.kkind))), m.vkind)

    def map_set(self, m, key, v):
        srt = self.S.opt_sort(m.vkind)
        m.arr = z3.Store(m.arr, self.z(key, m.kkind), srt.constructor(1)(self.z(v, m.vkind)))

    def map_empty(self, kkind, vkind):
        srt = self.S.opt_sort(vkind)
        return MapV(z3.K(self.S.sort_of(kkind), srt.constructor(0)()), kkind, vkind)

    def map_keys(self, m):
        k = z3.Const(self.fresh_name('_mk'), self.S.sort_of(m.kkind))
        srt = self.S.opt_sort(m.vkind)
        return ZV(z3.Lambda([k], z3.Not(srt.recognizer(0)(z3.Select(m.arr, k)))), ('set', m.kkind))

    # ------------------------------------------------------------ value helpers
    @property
    def S(self):
        return self.w.sorts

    def fresh(self, kind, hint='v'):
        kind = parse_kind(kind)
        if isinstance(kind, tuple) and kind[0] == 'opt':
            return OptV(z3.Bool(self.fresh_name(hint + '_isnone')), self.fresh(kind[1], hint), kind[1])
        if isinstance(kind, tuple) and kind[0] == 'tuple':
            return TupleV([self.fresh(k, hint + str(i)) for i, k in enumerate(kind[1])])
        if isinstance(kind, tuple) and kind[0] == 'map':
            return MapV(z3.Const(self.fresh_name(hint), self.S.sort_of(kind)), kind[1], kind[2])
        if isinstance(kind, tuple) and kind[0] == 'obj':
            return self.fresh_obj(kind[1], hint)
        if kind == 'none':
            return None
        if kind == 'memo':
            d = DictV()
            d.memo = True
            return d
        v = ZV(z3.Const(self.fresh_name(hint), self.S.sort_of(kind)), kind)
        return v

    def fresh_obj(self, recname, hint):
        r = self.S.records[recname]
        ci = self.class_info(r.pyclass)
        return ObjV(ci, {f: self.fresh(k, hint + '_' + f) for f, k in r.fields})

    def class_info(self, qualname):
        mod, _, cname = qualname.rpartition('.')
        mi = self.w.repo.module(mod)
        if mi is None or cname not in mi.classes:
            raise OutOfReach('class not found: ' + qualname)
        return mi.classes[cname]

    def kind_of(self, v):
        if isinstance(v, ZV):
            return v.kind
        if isinstance(v, bool):
            return 'bool'
        if isinstance(v, int):
            return 'int'
        if isinstance(v, str):
            return 'str'
        if v is None:
            return 'none'
        if isinstance(v, ObjV):
            k = self.S.class_kind.get(v.cls.qualname)
            if k is None:
                raise OutOfReach('no record kind for ' + v.cls.qualname)
            return k
        if isinstance(v, OptV):
            return ('opt', v.kind)
        if isinstance(v, TupleV):
            return ('tuple', tuple(self.kind_of(x) for x in v.items))
        if isinstance(v, tuple):
            return ('tuple', tuple(self.kind_of(x) for x in v))
        if isinstance(v, MapV):
            return ('map', v.kkind, v.vkind)
        if isinstance(v, ListV):
            if not v.items:
                return ('seq', None)
            return ('seq', self.kind_of(v.items[0]))
        from fractions import Fraction
        if isinstance(v, Fraction):
            return 'real'
        raise OutOfReach('kind_of %r' % (v,))

    def z(self, v, kind=None):
        """z3 expression of a value (coerced to `kind` when given)."""
        kind = parse_kind(kind) if kind is not None else None
        if isinstance(v, ZV):
            if kind == 'real' and v.kind == 'int':
                return z3.ToReal(v.e)
            return v.e
        if isinstance(v, bool):
            return z3.BoolVal(v)
        if isinstance(v, int):
            if kind == 'real':
                return z3.RealVal(v)
            return z3.IntVal(v)
        if isinstance(v, str):
            return self.S.intern(v)
        from fractions import Fraction
        if isinstance(v, Fraction):
            return z3.RealVal(str(v))
        if isinstance(v, ObjV):
            k = self.kind_of(v)
            r = self.S.records[k]
            self.S.record_sort(k)
            return r.con(*[self.z(v.fields[f], fk) for f, fk in r.fields])
        if isinstance(v, (TupleV, ListV, tuple, list)):
            items = v.items if isinstance(v, (TupleV, ListV)) else list(v)
            if kind is not None and kind[0] == 'seq':
                es = self.S.sort_of(kind[1])
                if not items:
                    return z3.Empty(z3.SeqSort(es))
                units = [z3.Unit(self.z(x, kind[1])) for x in items]
                return units[0] if len(units) == 1 else z3.Concat(*units)
            if kind is not None and kind[0] == 'set':
                s = z3.EmptySet(self.S.sort_of(kind[1]))
                for x in items:
                    s = z3.SetAdd(s, self.z(x, kind[1]))
                return s
            if kind is None and items:
                k = self.kind_of(items[0])
                return self.z(v, ('seq', k))
            if kind is not None and kind[0] == 'tuple':
                srt = self.S.tuple_sort(kind[1])
                return srt.constructor(0)(*[self.z(x, k) for x, k in zip(items, kind[1])])
            raise OutOfReach('cannot convert empty sequence without kind')
        if isinstance(v, MapV):
            return v.arr
        if isinstance(v, OptV) and kind is not None and not (isinstance(kind, tuple) and kind[0] == 'opt'):
            return self.z(v.val, kind)       # used where the value is known not to be None
        if isinstance(v, OptV):
            srt = self.S.opt_sort(v.kind)
            return z3.If(v.isnone, srt.constructor(0)(), srt.constructor(1)(self.z(v.val, v.kind)))
        if v is None and kind is not None and kind[0] == 'opt':
            return self.S.opt_sort(kind[1]).constructor(0)()
        raise OutOfReach('z: cannot convert %r (kind %r)' % (v, kind))

    def as_seq(self, v, elem_kind=None):
        """Return (z3 seq expr, elem kind) for a sequence value, or None."""
        if isinstance(v, ZV) and isinstance(v.kind, tuple) and v.kind[0] == 'seq':
            return v.e, v.kind[1]
        if isinstance(v, (TupleV, ListV, tuple, list)):
            items = v.items if isinstance(v, (TupleV, ListV)) else list(v)
            if not items and elem_kind is None:
                return None
            k = elem_kind if elem_kind is not None else self.kind_of(items[0])
            return self.z(v, ('seq', k)), k
        return None

    def truth(self, v):
        if isinstance(v, bool):
            return v
        if v is None:
            return False
        if isinstance(v, int):
            return v != 0
        if isinstance(v, str):
            return len(v) > 0
        if isinstance(v, (tuple, list)):
            return len(v) > 0
        if isinstance(v, (TupleV, ListV)):
            return len(v.items) > 0
        if isinstance(v, DictV):
            return len(v.items) > 0
        if isinstance(v, ZV):
            k = v.kind
            if k == 'bool':
                return v.e
            if k == 'int':
                return v.e != 0
            if k == 'real':
                return v.e != 0
            if isinstance(k, tuple) and k[0] == 'seq':
                return z3.Length(v.e) != 0
            if isinstance(k, tuple) and k[0] == 'set':
                return v.e != z3.EmptySet(self.S.sort_of(k[1]))
            if k in self.S.adts or k in self.S.records:
                ci = self.class_for_kind(k)
                if self.find_method(ci, '__bool__') or self.find_method(ci, '__len__'):
                    raise OutOfReach('truth value through __bool__/__len__ of ' + k)
                return True
            if k == 'str':
                raise OutOfReach('truth of symbolic str')
        if isinstance(v, OptV):
            inner = self.truth(v.val)
            if inner is True:
                return z3.Not(v.isnone)
            return z3.And(z3.Not(v.isnone), inner if not isinstance(inner, bool) else z3.BoolVal(inner))
        if isinstance(v, ObjV):
            m = self.find_method(v.cls, '__bool__')
            if m is not None:
                return self.truth(self.call_function(self.method_value(v.cls, m[0], m[1]), [v], {}))
            if self.find_method(v.cls, '__len__'):
                raise OutOfReach('truth through __len__')
            return True
        if isinstance(v, MapV):
            return v.arr != self.map_empty(v.kkind, v.vkind).arr
        if isinstance(v, (FuncV, ClassV, BoundV, BuiltinV, ModuleV, SpecFnV)):
            return True
        raise OutOfReach('truth of %r' % (v,))

    def tobool(self, v):
        t = self.truth(v)
        return z3.BoolVal(t) if isinstance(t, bool) else t

    # ------------------------------------------------------------ classes / methods
    def class_for_kind(self, k):
        if k in self.S.adts:
            return self.class_info(self.S.adts[k].base_class)
        if k in self.S.records:
            return self.class_info(self.S.records[k].pyclass)
        return None

    def find_method(self, ci, name):
        """Return (ClassInfo, FunctionDef) searching ci and its bases (in-repo only)."""
        seen = set()
        todo = [ci]
        while todo:
            c = todo.pop(0)
            if c.qualname in seen:
                continue
            seen.add(c.qualname)
            if name in c.methods:
                return c, c.methods[name]
            for b in c.bases:
                bc = self.resolve_class_name(c.module, b)
                if bc is not None:
                    todo.append(bc)
        return None

    def resolve_class_name(self, mi, name):
        if name in mi.classes:
            return mi.classes[name]
        if name in mi.imports:
            imp = mi.imports[name]
            if imp[0] == 'attr':
                m2 = self.w.repo.module(imp[1])
                if m2 is not None and imp[2] in m2.classes:
                    return m2.classes[imp[2]]
        return None

    def method_value(self, ci, owner, node):
        decos = owner.decorators(node.name)
        kind = 'function'
        if 'staticmethod' in decos:
            kind = 'staticmethod'
        elif 'property' in decos:
            kind = 'property'
        elif 'classmethod' in decos:
            kind = 'classmethod'
        return FuncV(node, owner.module, owner, owner.qualname + '.' + node.name, None, kind=kind)

    def class_attr(self, ci, name):
        """Class-level attribute (methods, constants)."""
        m = self.find_method(ci, name)
        if m is not None:
            return self.method_value(ci, m[0], m[1])
        c = ci
        if name in c.assigns:
            return self.eval_global_assign(c.module, c.assigns[name], ('cls', c.qualname, name), cls=c)
        for b in c.bases:
            bc = self.resolve_class_name(c.module, b)
            if bc is not None:
                try:
                    return self.class_attr(bc, name)
                except KeyError:
                    pass
        raise KeyError(name)

    def eval_global_assign(self, mi, spec, key, cls=None):
        cache = self.w.global_cache
        if key in cache:
            return cache[key]
        env = Env(mi, None, cls)
        self.spec_mode_push = None
        if isinstance(spec, tuple) and spec[0] == 'unpack':
            v = self.eval(spec[1], env)
            items = self.concrete_items(v)
            if items is None or len(items) != spec[3]:
                raise OutOfReach('module-level unpack')
            val = items[spec[2]]
        else:
            val = self.eval(spec, env)
        if _is_cacheable(val):
            cache[key] = val
        return val

    def concrete_items(self, v):
        if isinstance(v, (tuple, list)):
            return list(v)
        if isinstance(v, (TupleV, ListV)):
            return list(v.items)
        if isinstance(v, RangeV) and all(isinstance(x, int) for x in (v.lo, v.hi, v.step)):
            return list(range(v.lo, v.hi, v.step))
        if isinstance(v, ZV) and isinstance(v.kind, tuple) and v.kind[0] == 'seq' and self.seq_known:
            its = self.seq_known.get(v.e.sexpr())
            if its is not None:
                return list(its)
        return None

    def note_length(self, cond, d):
        """A decision `len(xs) == n` (n <= 6, xs an uninterpreted sequence constant) was taken on this path:
        from here on xs is the concrete tuple (x0, ..., xn-1) of fresh constants (xs == [x0, ..., xn-1] is assumed,
        which is what the decision says), so loops over it unroll and calls with *xs see n arguments."""
        c = cond
        if z3.is_not(c):
            c, d = c.arg(0), not d
        if not d or not z3.is_eq(c):
            return
        a, b = c.arg(0), c.arg(1)
        if z3.is_int_value(a):
            a, b = b, a
        if not (z3.is_int_value(b) and z3.is_app(a) and a.decl().kind() == z3.Z3_OP_SEQ_LENGTH):
            return
        xs, n = a.arg(0), b.as_long()
        if not (0 <= n <= 6 and z3.is_const(xs) and xs.decl().kind() == z3.Z3_OP_UNINTERPRETED):
            return
        key = xs.sexpr()
        if key in self.seq_known:
            return
        kind = None
        for v in self.inputs.values():
            if isinstance(v, ZV) and isinstance(v.kind, tuple) and v.kind[0] == 'seq' and v.e.sexpr() == key:
                kind = v.kind
        if kind is None:
            return
        items = [self.fresh(kind[1], '%s_%d' % (str(xs).split('!')[0], i)) for i in range(n)]
        zs = [z3.Unit(self.z(x, kind[1])) for x in items]
        lit = z3.Empty(xs.sort()) if n == 0 else zs[0] if n == 1 else z3.Concat(*zs)
        self.assume(xs == lit)
        self.seq_known[key] = items

    # ------------------------------------------------------------ name resolution
    def lookup_name(self, name, env):
        try:
            return env.lookup(name)
        except KeyError:
            pass
        return self.lookup_global(name, env.module, env)

    def lookup_global(self, name, mi, env=None):
        if mi is not None:
            if name in mi.functions:
                fn = mi.functions[name]
                q = mi.name + '.' + name
                if any(getattr(d, 'id', None) == 'native' for d in fn.decorator_list):
                    from . import builtins_ as B
                    if name in B.BUILTINS:
                        return B.BUILTINS[name]      # native helper with a symbolic counterpart
                if name in self.w.specs and mi.name.startswith('spec'):
                    return self.w.specs[name]
                if name in self.w.lemmas and mi.name.startswith('spec'):
                    return LemmaV(name)
                return FuncV(fn, mi, None, q, None)
            if name in mi.classes:
                return self.class_value(mi.classes[name])
            if name in mi.assigns:
                return self.eval_global_assign(mi, mi.assigns[name], ('mod', mi.name, name))
            if name in mi.imports:
                imp = mi.imports[name]
                if imp[0] == 'module':
                    return self.module_value(imp[1])
                modname, attr = imp[1], imp[2]
                if modname == 'spec.api':
                    from . import builtins_ as B
                    if attr in B.BUILTINS:
                        return B.BUILTINS[attr]
                m2 = self.w.repo.module(modname)
                if m2 is not None:
                    try:
                        return self.lookup_global(attr, m2)
                    except KeyError:
                        pass
                sub = self.w.repo.module(modname + '.' + attr)
                if sub is not None:
                    return ModuleV(modname + '.' + attr, sub)
                return self.external(modname, attr)
        from . import builtins_ as B
        if name in B.BUILTINS:
            return B.BUILTINS[name]
        if name in self.w.exc_bases:
            return ExcClassV(name, self.w.exc_bases[name])
        raise KeyError(name)

    def module_value(self, modname):
        mi = self.w.repo.module(modname)
        return ModuleV(modname, mi)

    def external(self, modname, attr):
        from . import builtins_ as B
        key = modname + '.' + attr
        if key in B.EXTERNALS:
            return B.EXTERNALS[key]
        raise OutOfReach('external %s' % key)

    def class_value(self, ci):
        # exception classes defined in the repo
        if self.is_exception_class(ci):
            bases = []
            for b in ci.bases:
                bc = self.resolve_class_name(ci.module, b)
                bases.append(bc.name if bc is not None else b)
            self.w.exc_bases.setdefault(ci.name, bases)
            return ExcClassV(ci.name, bases)
        return ClassV(ci)

    def is_exception_class(self, ci):
        for b in ci.bases:
            if b in self.w.exc_bases:
                return True
            bc = self.resolve_class_name(ci.module, b)
            if bc is not None and self.is_exception_class(bc):
                return True
        return False

    # ------------------------------------------------------------ expressions
    def eval(self, node, env):
        m = getattr(self, 'e_' + type(node).__name__, None)
        if m is None:
            raise OutOfReach('expression %s' % type(node).__name__)
        return m(node, env)

    def e_Constant(self, node, env):
        v = node.value
        if isinstance(v, (bool, int, str)) or v is None:
            return v
        if v is Ellipsis:
            return None
        if isinstance(v, float):
            raise OutOfReach('float constant')
        raise OutOfReach('constant %r' % (v,))

    def e_Name(self, node, env):
        try:
            return self.lookup_name(node.id, env)
        except KeyError:
            raise OutOfReach('unresolved name %s' % node.id)

    def e_Tuple(self, node, env):
        items = []
        for e in node.elts:
            if isinstance(e, ast.Starred):
                v = self.eval(e.value, env)
                its = self.concrete_items(v)
                if its is None:
                    raise OutOfReach('starred symbolic sequence in tuple')
                items.extend(its)
            else:
                items.append(self.eval(e, env))
        return TupleV(items)

    def e_List(self, node, env):
        t = self.e_Tuple(node, env)
        return ListV(t.items)

    def e_Set(self, node, env):
        items = [self.eval(e, env) for e in node.elts]
        k = self.kind_of(items[0])
        return ZV(self.z(TupleV(items), ('set', k)), ('set', k))

    def e_Dict(self, node, env):
        d = DictV()
        for k, v in zip(node.keys, node.values):
            kv = self.eval(k, env)
            if not isinstance(kv, (str, int)):
                raise OutOfReach('dict literal with symbolic key')
            d.items[kv] = self.eval(v, env)
        return d

    def e_IfExp(self, node, env):
        c = self.truth(self.eval(node.test, env))
        if self.choose(c):
            return self.eval(node.body, env)
        return self.eval(node.orelse, env)

    def e_BoolOp(self, node, env):
        isand = isinstance(node.op, ast.And)
        v = None
        for i, e in enumerate(node.values):
            v = self.eval(e, env)
            if i == len(node.values) - 1:
                return v
            t = self.truth(v)
            if self.spec_mode and self.total_access and not isinstance(t, bool):
                # merge without forking inside specifications
                rest = ast.BoolOp(op=node.op, values=node.values[i + 1:]) if len(node.values) - i - 1 > 1 \
                    else node.values[i + 1]
                r = self.tobool(self.eval(rest, env))
                return ZV(z3.And(t, r) if isand else z3.Or(t, r), 'bool')
            d = self.choose(t)
            if isand and not d:
                return v if not isinstance(v, ZV) or v.kind != 'bool' else False
            if (not isand) and d:
                return v if not isinstance(v, ZV) or v.kind != 'bool' else True
        return v

    def e_UnaryOp(self, node, env):
        v = self.eval(node.operand, env)
        if isinstance(node.op, ast.Not):
            t = self.truth(v)
            return (not t) if isinstance(t, bool) else ZV(z3.Not(t), 'bool')
        if isinstance(node.op, ast.USub):
            if isinstance(v, ZV) and v.kind in ('int', 'real'):
                return ZV(-v.e, v.kind)
            if isinstance(v, (int,)) and not isinstance(v, bool):
                return -v
            return self.dunder_call(v, '__neg__', [])
        if isinstance(node.op, ast.UAdd):
            return v
        raise OutOfReach('unary op')

    def e_BinOp(self, node, env):
        a = self.eval(node.left, env)
        b = self.eval(node.right, env)
        return self.binop(node.op, a, b)

    def e_Compare(self, node, env):
        left = self.eval(node.left, env)
        res = None
        for op, rn in zip(node.ops, node.comparators):
            right = self.eval(rn, env)
            r = self.compare(op, left, right)
            if len(node.ops) == 1:
                return r
            t = self.tobool(r)
            res = t if res is None else z3.And(res, t)
            left = right
        return ZV(z3.simplify(res), 'bool')

    def e_Attribute(self, node, env):
        v = self.eval(node.value, env)
        return self.getattr(v, node.attr)

    def e_Subscript(self, node, env):
        v = self.eval(node.value, env)
        if isinstance(node.slice, ast.Slice):
            lo = self.eval(node.slice.lower, env) if node.slice.lower is not None else None
            hi = self.eval(node.slice.upper, env) if node.slice.upper is not None else None
            if node.slice.step is not None:
                raise OutOfReach('slice step')
            return self.slice(v, lo, hi)
        idx = self.eval(node.slice, env)
        return self.index(v, idx)

    def e_Lambda(self, node, env):
        fn = ast.FunctionDef(name='<lambda>', args=node.args, body=[ast.Return(value=node.body)],
                             decorator_list=[], returns=None, lineno=node.lineno, col_offset=0)
        return FuncV(fn, env.module, None, '<lambda>', env)

    def e_GeneratorExp(self, node, env):
        return IterV(node, env)

    def e_ListComp(self, node, env):
        from . import builtins_ as B
        return B.consume_comprehension(self, IterV(node, env), 'list')

    def e_SetComp(self, node, env):
        from . import builtins_ as B
        return B.consume_comprehension(self, IterV(node, env), 'set')

    def e_JoinedStr(self, node, env):
        raise OutOfReach('f-string')

    def e_Call(self, node, env):
        from . import builtins_ as B
        # mutating method calls on variables / attributes
        if isinstance(node.func, ast.Attribute) and node.func.attr in B.MUTATORS:
            tgt = self.eval(node.func.value, env)
            if B.is_immutable_container(tgt):
                args = [self.eval(a, env) for a in node.args]
                newv, ret = B.mutate(self, tgt, node.func.attr, args)
                self.assign(node.func.value, newv, env)
                return ret
        fv = self.eval(node.func, env)
        args = []
        for a in node.args:
            if isinstance(a, ast.Starred):
                sv = self.eval(a.value, env)
                if isinstance(sv, IterV):
                    sv = B.consume_comprehension(self, sv, 'tuple')
                its = self.concrete_items(sv)
                if its is None:
                    args.append(StarArg(sv))
                else:
                    args.extend(its)
            else:
                args.append(self.eval(a, env))
        kwargs = {}
        for kw in node.keywords:
            if kw.arg is None:
                raise OutOfReach('**kwargs call')
            kwargs[kw.arg] = self.eval(kw.value, env)
        return self.call(fv, args, kwargs)

    # ------------------------------------------------------------ operators
    def binop(self, op, a, b):
        from . import builtins_ as B
        return B.binop(self, op, a, b)

    def compare(self, op, a, b):
        from . import builtins_ as B
        return B.compare(self, op, a, b)

    def index(self, v, idx):
        from . import builtins_ as B
        return B.index(self, v, idx)

    def slice(self, v, lo, hi):
        from . import builtins_ as B
        return B.slice_(self, v, lo, hi)

    def dunder_call(self, v, name, args):
        ci = None
        if isinstance(v, ObjV):
            ci = v.cls
        elif isinstance(v, ZV):
            ci = self.class_for_kind(v.kind) if isinstance(v.kind, str) else None
        if ci is None:
            raise OutOfReach('%s on %r' % (name, v))
        m = self.find_method(ci, name)
        if m is None:
            raise OutOfReach('%s not defined for %s' % (name, ci.qualname))
        return self.call(BoundV(v, self.method_value(ci, m[0], m[1])), args, {})

    # ------------------------------------------------------------ attributes
    def getattr(self, v, attr):
        from . import builtins_ as B
        if isinstance(v, ModuleV):
            if v.info is not None:
                try:
                    return self.lookup_global(attr, v.info)
                except KeyError:
                    sub = self.w.repo.module(v.name + '.' + attr)
                    if sub is not None:
                        return ModuleV(v.name + '.' + attr, sub)
            return self.external(v.name, attr)
        if isinstance(v, ClassV):
            try:
                return self.class_attr(v.info, attr)
            except KeyError:
                raise OutOfReach('class attribute %s.%s' % (v.info.qualname, attr))
        if isinstance(v, ObjV):
            if attr in v.fields:
                return v.fields[attr]
            m = self.find_method(v.cls, attr)
            if m is not None:
                fv = self.method_value(v.cls, m[0], m[1])
                if fv.kind == 'property':
                    return self.call(BoundV(v, fv), [], {})
                if fv.kind == 'staticmethod':
                    return fv
                return BoundV(v, fv)
            try:
                return self.class_attr(v.cls, attr)
            except KeyError:
                pass
            if isinstance(v.fields.get('data'), MapV) and attr in ('keys', 'items', 'values', 'get'):
                return B.builtin_attr(self, v.fields['data'], attr)
            if self.total_access:
                raise OutOfReach('attribute %s of %s' % (attr, v.cls.qualname))
            raise PyRaise('AttributeError', attr)
        if isinstance(v, OptV):
            if self.total_access or not self.choose(v.isnone):
                return self.getattr(v.val, attr)
            raise PyRaise('AttributeError', 'None.' + attr)
        if v is None:
            raise PyRaise('AttributeError', 'None.' + attr)
        if isinstance(v, ZV) and isinstance(v.kind, str):
            k = v.kind
            if k in self.S.adts:
                return self.adt_getattr(v, self.S.adts[k], attr)
            if k in self.S.records:
                r = self.S.records[k]
                self.S.record_sort(k)
                if attr in r.acc:
                    return self.wrap(r.acc[attr](v.e), r.field_kind(attr))
                ci = self.class_info(r.pyclass)
                m = self.find_method(ci, attr)
                if m is not None:
                    fv = self.method_value(ci, m[0], m[1])
                    if fv.kind == 'property':
                        return self.call(BoundV(v, fv), [], {})
                    if fv.kind == 'staticmethod':
                        return fv
                    return BoundV(v, fv)
                raise PyRaise('AttributeError', attr)
        return B.builtin_attr(self, v, attr)

    def wrap(self, e, kind):
        """Wrap a z3 expression of sort(kind) as a value (unpacking opt / tuple kinds)."""
        if isinstance(kind, tuple) and kind[0] == 'opt':
            srt = self.S.opt_sort(kind[1])
            return OptV(srt.recognizer(0)(e), self.wrap(srt.accessor(1, 0)(e), kind[1]), kind[1])
        if isinstance(kind, tuple) and kind[0] == 'tuple':
            srt = self.S.tuple_sort(kind[1])
            return TupleV([self.wrap(srt.accessor(0, i)(e), k) for i, k in enumerate(kind[1])])
        if isinstance(kind, tuple) and kind[0] == 'map':
            return MapV(e, kind[1], kind[2])
        return ZV(e, kind)

    def adt_getattr(self, v, adt, attr):
        if attr == adt.tag_attr:
            return TagV(v, adt)
        if attr == '_id':
            return IdV(v)
        if attr in adt.derived:
            e, k = adt.derived[attr](v.e)
            return self.wrap(e, k)
        owners = adt.fields_named(attr)
        if owners:
            kinds = set(repr(dict(c.fields)[attr]) for c, _ in owners)
            if len(kinds) != 1:
                raise OutOfReach('field %s has different kinds' % attr)
            kind = dict(owners[0][0].fields)[attr]
            if len(owners) < len(adt.ctors) and not self.total_access:
                ok = z3.Or(*[c.rec(v.e) for c, _ in owners])
                if not self.choose(ok):
                    raise PyRaise('AttributeError', attr)
            e = owners[-1][1](v.e)
            for c, acc in reversed(owners[:-1]):
                e = z3.If(c.rec(v.e), acc(v.e), e)
            return self.wrap(e, kind)
        if attr in adt.ignored:
            # attribute left out of the model: an arbitrary value of an opaque kind
            return self.fresh('str', attr)
        ci = self.class_info(adt.base_class)
        m = self.find_method(ci, attr)
        if m is not None:
            fv = self.method_value(ci, m[0], m[1])
            if fv.kind == 'property':
                return self.call(BoundV(v, fv), [], {})
            if fv.kind == 'staticmethod':
                return fv
            return BoundV(v, fv)
        try:
            return self.class_attr(ci, attr)
        except KeyError:
            pass
        if self.total_access:
            raise OutOfReach('attribute %s of %s' % (attr, adt.name))
        raise PyRaise('AttributeError', attr)

    # ------------------------------------------------------------ calls
    def call(self, fv, args, kwargs):
        from . import builtins_ as B
        if isinstance(fv, BuiltinV):
            return fv.fn(self, args, kwargs)
        if isinstance(fv, SpecFnV):
            return self.call_spec(fv, args)
        if isinstance(fv, LemmaV):
            return self.use_lemma(fv.name, args)
        if isinstance(fv, BoundV):
            if isinstance(fv.func, BuiltinV):
                return fv.func.fn(self, [fv.self_val] + list(args), kwargs)
            return self.call_function(fv.func, [fv.self_val] + list(args), kwargs)
        if isinstance(fv, FuncV):
            return self.call_function(fv, list(args), kwargs)
        if isinstance(fv, ClassV):
            return self.construct(fv.info, list(args), kwargs)
        if isinstance(fv, ExcClassV):
            return ExcInstV(fv.name, args)
        if isinstance(fv, ZV) or isinstance(fv, ObjV):
            return self.dunder_call(fv, '__call__', args)
        raise OutOfReach('call of %r' % (fv,))

    def call_spec(self, sf, args):
        if len(args) != len(sf.pkinds):
            raise OutOfReach('spec %s arity' % sf.name)
        if sf.name not in self.w.spec_defined:
            self.w.spec_defined.add(sf.name)
            mi, fn = self.w.spec_defs[sf.name]
            define_spec(self.w, sf.name, mi, fn)
        es = [self.z(a, k) for a, k in zip(args, sf.pkinds)]
        if sf.name in self.w.spec_macros:
            # non-recursive spec function: expanded in place (no recursive-function unfolding needed)
            consts, body = self.w.spec_macros[sf.name]
            return self.wrap(z3.substitute(body, *zip(consts, es)) if consts else body, sf.rkind)
        if sf.name in self.w.spec_defining:
            # the function is being defined right now: its symbol has no definition yet, so solver
            # checks made while enumerating the paths of the body must see an arbitrary value;
            # define_spec substitutes the real application back into the finished body
            p = z3.Const(self.fresh_name('rec_' + sf.name), self.S.sort_of(sf.rkind))
            self.placeholders.append((p, sf.decl(*es)))
            return self.wrap(p, sf.rkind)
        return self.wrap(sf.decl(*es), sf.rkind)

    def use_lemma(self, name, args):
        """Use a side-car lemma: prove its requires, assume its ensures (its own proof is checked
        separately by verify_lemma; recursive uses are induction hypotheses with a decreases check)."""
        mi, fn = self.w.lemmas[name]
        env = Env(mi, None, None)
        pn = [a.arg for a in fn.args.args]
        if len(pn) != len(args):
            raise OutOfReach('lemma %s arity' % name)
        for p, a in zip(pn, args):
            env.vars[p] = a
        recursive = getattr(self, 'lemma_mode', None) == name
        self.lemma_use = getattr(self, 'lemma_use', 0) + 1
        self.spec_mode += 1
        self.total_access += 1
        try:
            for st in fn.body:
                if isinstance(st, ast.Expr) and isinstance(st.value, ast.Call) and \
                        isinstance(st.value.func, ast.Name):
                    nm = st.value.func.id
                    if nm == 'requires' or nm == 'ensures' or (nm == 'decreases' and recursive):
                        self.eval(st.value, env)
        finally:
            self.lemma_use -= 1
            self.spec_mode -= 1
            self.total_access -= 1
        if getattr(self, 'lemma_mode', None) is None:
            self.used_lemmas = getattr(self, 'used_lemmas', set()) | {name}
        return None

    def use_lemma_forall(self, name):
        """Assume a (separately proved) side-car lemma for ALL values of its parameters:
        forall params. requires => ensures.  Instantiation is left to the solver's E-matching."""
        mi, fn = self.w.lemmas[name]
        env = Env(mi, None, None)
        consts = []
        for a in fn.args.args:
            v = self.fresh(kind_of_annotation(a.annotation), 'lq_' + a.arg)
            env.vars[a.arg] = v
            consts.append(v.arr if isinstance(v, MapV) else v.e)
        n0 = len(self.pc)
        n_ob = len(self.obligations)
        self.lemma_use = getattr(self, 'lemma_use', 0) + 1
        self.spec_mode += 1
        self.total_access += 1
        saved_no_prove = self.no_prove
        reqs, enss = [], []
        try:
            for st in fn.body:
                if isinstance(st, ast.Expr) and isinstance(st.value, ast.Call) and \
                        isinstance(st.value.func, ast.Name) and st.value.func.id in ('requires', 'ensures'):
                    cl = self.tobool(self.eval(st.value.args[0], env))
                    (reqs if st.value.func.id == 'requires' else enss).append(cl)
        finally:
            self.lemma_use -= 1
            self.spec_mode -= 1
            self.total_access -= 1
            self.no_prove = saved_no_prove
        del self.pc[n0:]
        body = z3.Implies(z3.And(*reqs), z3.And(*enss)) if reqs else z3.And(*enss)
        self.assume(z3.ForAll(consts, body))
        if getattr(self, 'lemma_mode', None) is None:
            self.used_lemmas = getattr(self, 'used_lemmas', set()) | {name}

    def construct(self, ci, args, kwargs):
        q = ci.qualname
        if q in self.w.overrides:
            return self.w.overrides[q](self, args, kwargs)
        k = self.S.class_kind.get(q)
        if k is not None and k in self.S.adts:
            adt = self.S.adts[k]
            c = adt.ctor_for_class(q)
            if c is None:
                # base class constructor such as Term(arg): copy of arg
                if len(args) == 1 and isinstance(args[0], ZV) and args[0].kind == k:
                    return args[0]
                raise OutOfReach('constructor of abstract ADT class ' + q)
            from . import builtins_ as B
            return B.construct_adt(self, adt, c, ci, args, kwargs)
        # record / plain class: run __init__
        obj = ObjV(ci, {})
        m = self.find_method(ci, '__init__')
        if m is not None:
            self.call_function(self.method_value(ci, m[0], m[1]), [obj] + args, kwargs)
        elif args or kwargs:
            raise OutOfReach('constructor args without __init__: ' + q)
        return obj

    def bind_args(self, fn, args, kwargs, env, defaults_env):
        a = fn.args
        params = [p.arg for p in a.posonlyargs + a.args]
        ndef = len(a.defaults)
        args = list(args)
        star = None
        for i, x in enumerate(args):
            if isinstance(x, StarArg):
                star = i
        star_val = None
        if star is not None:
            # f(a, b, *seq) with a symbolic sequence: only when it is last and feeds *args exactly
            if star != len(args) - 1 or a.vararg is None or star != len(params) or kwargs:
                raise OutOfReach('symbolic *args at call')
            star_val = args[star].v
            args = args[:star]
        for i, p in enumerate(params):
            if i < len(args):
                env.vars[p] = args[i]
            elif p in kwargs:
                env.vars[p] = kwargs.pop(p)
            else:
                di = i - (len(params) - ndef)
                if di < 0:
                    raise PyRaise('TypeError', 'missing argument ' + p)
                env.vars[p] = self.eval(a.defaults[di], defaults_env)
        extra = args[len(params):]
        if a.vararg is not None and star_val is not None:
            env.vars[a.vararg.arg] = star_val
        elif a.vararg is not None:
            env.vars[a.vararg.arg] = TupleV(extra)
        elif extra:
            raise PyRaise('TypeError', 'too many arguments')
        for p, d in zip(a.kwonlyargs, a.kw_defaults):
            if p.arg in kwargs:
                env.vars[p.arg] = kwargs.pop(p.arg)
            elif d is not None:
                env.vars[p.arg] = self.eval(d, defaults_env)
            else:
                raise PyRaise('TypeError', 'missing kw argument ' + p.arg)
        if a.kwarg is not None:
            d = DictV()
            d.items.update(kwargs)
            env.vars[a.kwarg.arg] = d
        elif kwargs:
            raise PyRaise('TypeError', 'unexpected keyword ' + ','.join(kwargs))

    def call_function(self, fv, args, kwargs):
        q = fv.qualname
        if q in self.w.overrides:
            return self.w.overrides[q](self, args, kwargs)
        c = self.w.contracts.get(q)
        if c is not None and not c.inline and not self.spec_mode:
            if c.inline_if_none is not None and self.arg_is_none(fv, c.inline_if_none, args, kwargs):
                return self.inline_call(fv, args, kwargs)
            if getattr(c, 'inline_if_concrete', False) and not kwargs and \
                    not any(isinstance(a, StarArg) for a in args) and self.target != q:
                # a *args function called with a concrete number of arguments: its loops unroll, no contract needed
                return self.inline_call(fv, args, kwargs)
            return self.apply_contract(c, fv, args, kwargs)
        return self.inline_call(fv, args, kwargs)

    def arg_is_none(self, fv, pname, args, kwargs):
        params = [p.arg for p in fv.node.args.args]
        i = params.index(pname)
        if i < len(args):
            return args[i] is None
        if pname in kwargs:
            return kwargs[pname] is None
        return True

    def inline_call(self, fv, args, kwargs):
        q = fv.qualname
        if len(self.inline_stack) > MAX_INLINE_DEPTH:
            raise OutOfReach('inline depth exceeded at ' + q)
        if q != '<lambda>' and self.inline_stack.count(q) >= 1 and not self.spec_mode:
            raise OutOfReach('recursive call of %s without contract' % q)
        if q != '<lambda>' and self.inline_stack.count(q) >= 3:
            raise OutOfReach('recursive inline of %s' % q)
        env = Env(fv.module, fv.closure, fv.cls)
        self.bind_args(fv.node, args, kwargs, env, Env(fv.module, fv.closure, fv.cls))
        frame = Frame(fv, env, self.w.contracts.get(q))
        self.frames.append(frame)
        self.inline_stack.append(q)
        try:
            self.exec_block(fv.node.body, env)
            return None
        except ReturnSig as r:
            return r.val
        finally:
            self.inline_stack.pop()
            self.frames.pop()

    def clause_env(self, c, fv, bound, extra=None):
        """Environment for evaluating a contract clause: parameters, captured variables."""
        env = Env(c.module, None, None)
        env.vars.update(bound)
        if extra:
            env.vars.update(extra)
        return env

    def eval_clause(self, c, fn, values):
        """Evaluate a contract clause (FunctionDef) with parameters looked up by name in `values`."""
        env = Env(c.module, None, None)
        for p in fn.args.args:
            if p.arg not in values:
                raise OutOfReach('contract %s clause %s: unknown parameter %s' % (c.qualname, fn.name, p.arg))
            env.vars[p.arg] = values[p.arg]
        self.spec_mode += 1
        self.total_access += 1
        saved = self.frames
        self.frames = []
        try:
            try:
                self.exec_block(fn.body, env)
                v = None
            except ReturnSig as r:
                v = r.val
        finally:
            self.frames = saved
            self.spec_mode -= 1
            self.total_access -= 1
        return v

    def apply_contract(self, c, fv, args, kwargs):
        env = Env(fv.module, fv.closure, fv.cls)
        self.bind_args(fv.node, args, kwargs, env, Env(fv.module, fv.closure, fv.cls))
        values = dict(env.vars)
        for name in c.captures:
            try:
                values[name] = fv.closure.lookup(name) if fv.closure is not None else None
            except KeyError:
                raise OutOfReach('captured variable %s of %s not bound' % (name, c.qualname))
        # coerce concrete values to declared kinds (ints stay ints)
        for lbl, fn in c.requires:
            claim = self.tobool(self.eval_clause(c, fn, values))
            self.prove(claim, 'pre:%s:%s' % (c.qualname, lbl), 'pre')
        if c.decreases is not None and self.target is not None and self.in_target_group(c.qualname):
            self.check_decreases(c, values)
        # old values of modified parameters
        olds = {}
        if c.modifies and getattr(self, 'summarising', 0):
            raise OutOfReach('call of %s (modifies %s) inside a comprehension summarised element-wise; '
                             'give the comprehension a comp_invariant' % (c.qualname, c.modifies))
        for m in c.modifies:
            olds['old_' + m] = self.snapshot(values[m])
            self.havoc_inplace(values[m], m)
        # exceptional outcomes, only where somebody is listening
        for exc in c.raises:
            if self.someone_catches(exc):
                if self.choose(z3.Bool(self.fresh_name('raises_' + exc))):
                    raise PyRaise(exc, 'from ' + c.qualname)
        values.update(olds)
        if c.returns is None or c.returns == 'none':
            result = None
        elif c.pure_result is not None:
            # functional contract: the result IS the spec function of the listed arguments
            # (the body is verified against `result == f(args)` by the generated ensures clause)
            sf = self.w.specs[c.pure_result[0]]
            result = self.call_spec(sf, [values[a] for a in c.pure_result[1:]])
        else:
            result = self.fresh(c.returns, 'r_' + c.qualname.split('.')[-1])
        values['result'] = result
        gvals = dict(values)
        gconsts = []
        cur = getattr(self, 'ghost_values', {})
        # the caller is verified for ghost values of the same name and kind: the callee's (universally
        # quantified) post-condition is additionally stated at exactly those values, so that the common
        # case needs no quantifier instantiation
        inst_vals = None
        if c.ghost and all(g in cur and self.kind_of(cur[g]) == k for g, k in c.ghost.items()):
            inst_vals = dict(values)
            for g in c.ghost:
                inst_vals[g] = cur[g]
        for g, k in c.ghost.items():
            gv = self.fresh(k, 'g_' + g)
            gvals[g] = gv
            gconsts.append(gv.arr if isinstance(gv, MapV) else gv.e)
        for lbl, fn in c.ensures:
            uses_ghost = any(p.arg in c.ghost for p in fn.args.args)
            cl = self.tobool(self.eval_clause(c, fn, gvals if uses_ghost else values))
            if uses_ghost and gconsts:
                cl = z3.ForAll(gconsts, cl)
            self.assume(cl)
            if uses_ghost and inst_vals is not None:
                inst_vals['result'] = result
                self.assume(self.tobool(self.eval_clause(c, fn, inst_vals)))
        return result

    def someone_catches(self, exc):
        for fr in self.frames:
            for handlers in fr.try_handlers:
                for h in handlers:
                    if h is None or self.w.is_subclass_exc(exc, h):
                        return True
        return False

    def in_target_group(self, q):
        return q == self.target or q in getattr(self, 'target_group', ())

    def check_decreases(self, c, values):
        if self.target_measure is None:
            return
        if isinstance(c.decreases, str):
            raise OutOfReach('decreases string form not supported')
        m = self.eval_clause(c, c.decreases, values)
        new = self.measure_list(m)
        old = self.target_measure
        self.prove(self.measure_less(new, old), 'decreases:%s' % c.qualname, 'decr')

    def measure_less(self, new, old):
        """Lexicographic order; Int components by < on naturals, ADT components by the
        (well-founded) strict-subterm order, checked up to two constructor levels."""
        claim = z3.BoolVal(False)
        eqs = z3.BoolVal(True)
        for o, n in zip(old, new):
            if o.sort() != n.sort():
                raise OutOfReach('decreases: component sorts differ')
            if z3.is_int(o):
                less = z3.And(n < o, n >= 0)
            else:
                less = self.strict_subterm(n, o, 2)
            claim = z3.Or(claim, z3.And(eqs, less))
            eqs = z3.And(eqs, n == o)
        return claim

    def strict_subterm(self, n, o, depth):
        adt = None
        for a in self.S.adts.values():
            if a.sort == o.sort():
                adt = a
        if adt is None:
            raise OutOfReach('decreases on a non-ADT, non-int value')
        alts = []
        for c in adt.ctors:
            for f, k in c.fields:
                if k == ('seq', adt.name):
                    sq = c.acc[f](o)
                    if z3.is_app(n) and n.decl().kind() == z3.Z3_OP_SEQ_NTH and \
                            z3.simplify(n.arg(0)).eq(z3.simplify(sq)):
                        alts.append(z3.And(c.rec(o), n.arg(1) >= 0, n.arg(1) < z3.Length(sq)))
                    else:
                        alts.append(z3.And(c.rec(o), z3.Contains(sq, z3.Unit(n))))
                if k == adt.name:
                    child = c.acc[f](o)
                    alts.append(z3.And(c.rec(o), n == child))
                    if depth > 1:
                        alts.append(z3.And(c.rec(o), self.strict_subterm(n, child, depth - 1)))
        return z3.Or(*alts) if alts else z3.BoolVal(False)

    def measure_list(self, m):
        items = m.items if isinstance(m, TupleV) else [m]
        out = []
        for x in items:
            if isinstance(x, ZV) and isinstance(x.kind, str) and x.kind in self.S.adts:
                out.append(x.e)
            else:
                out.append(self.z(x, 'int'))
        return out

    def snapshot(self, v):
        if isinstance(v, MapV):
            return MapV(v.arr, v.kkind, v.vkind)
        if isinstance(v, ObjV):
            return ObjV(v.cls, {k: self.snapshot(x) for k, x in v.fields.items()})
        if isinstance(v, ListV):
            return ListV(list(v.items))
        return v

    def havoc_inplace(self, v, hint):
        if isinstance(v, MapV):
            v.arr = self.fresh(('map', v.kkind, v.vkind), hint).arr
        elif isinstance(v, ObjV):
            k = self.kind_of(v)
            r = self.S.records[k]
            for f, fk in r.fields:
                cur = v.fields.get(f)
                if isinstance(cur, (MapV, ObjV)):
                    self.havoc_inplace(cur, hint + '_' + f)
                else:
                    v.fields[f] = self.fresh(fk, hint + '_' + f)
        else:
            raise OutOfReach('modifies of a non-object parameter %s' % hint)

    # ------------------------------------------------------------ statements
    def exec_block(self, stmts, env):
        for s in stmts:
            self.exec(s, env)

    def exec(self, node, env):
        m = getattr(self, 's_' + type(node).__name__, None)
        if m is None:
            raise OutOfReach('statement %s' % type(node).__name__)
        return m(node, env)

    def s_Expr(self, node, env):
        if isinstance(node.value, ast.Constant):
            return
        self.eval(node.value, env)

    def s_Pass(self, node, env):
        pass

    def s_Global(self, node, env):
        env.globals_decl.update(node.names)
        raise OutOfReach('global statement')

    def s_Nonlocal(self, node, env):
        env.nonlocals.update(node.names)

    def s_Return(self, node, env):
        raise ReturnSig(self.eval(node.value, env) if node.value is not None else None)

    def s_Break(self, node, env):
        raise BreakSig()

    def s_Continue(self, node, env):
        raise ContinueSig()

    def s_Assert(self, node, env):
        t = self.truth(self.eval(node.test, env))
        if self.spec_mode and self.frames == []:
            # assert inside a lemma/contract body: proof obligation
            self.prove(self.tobool_raw(t), 'assert', 'assert')
            return
        if not self.choose(t):
            raise PyRaise('AssertionError')

    def tobool_raw(self, t):
        return z3.BoolVal(t) if isinstance(t, bool) else t

    def s_Raise(self, node, env):
        if node.exc is None:
            raise OutOfReach('bare raise')
        v = self.eval(node.exc, env)
        if isinstance(v, ExcClassV):
            raise PyRaise(v.name)
        if isinstance(v, ExcInstV):
            raise PyRaise(v.cls)
        raise OutOfReach('raise of %r' % (v,))

    def s_If(self, node, env):
        t = self.truth(self.eval(node.test, env))
        if self.choose(t):
            self.exec_block(node.body, env)
        else:
            self.exec_block(node.orelse, env)

    def s_FunctionDef(self, node, env):
        fr = self.frames[-1] if self.frames else None
        base = fr.fv.qualname if fr is not None and fr.fv is not None else '<top>'
        env.set(node.name, FuncV(node, env.module, None, base + '.' + node.name, env))

    def s_Delete(self, node, env):
        for t in node.targets:
            if isinstance(t, ast.Attribute) and t.attr == '_hash_val':
                continue
            raise OutOfReach('del statement')

    def s_Assign(self, node, env):
        v = self.eval(node.value, env)
        if isinstance(v, IterV):
            raise OutOfReach('generator stored in a variable')
        for tgt in node.targets:
            self.assign(tgt, v, env)

    def s_AnnAssign(self, node, env):
        if node.value is not None:
            self.assign(node.target, self.eval(node.value, env), env)

    def s_AugAssign(self, node, env):
        load = ast.fix_missing_locations(ast.copy_location(_to_load(node.target), node.target))
        cur = self.eval(load, env)
        v = self.eval(node.value, env)
        if isinstance(cur, ListV) and isinstance(node.op, ast.Add):
            its = self.concrete_items(v)
            if its is None:
                raise OutOfReach('list += symbolic')
            cur.items.extend(its)
            return
        self.assign(node.target, self.binop(node.op, cur, v), env)

    def assign(self, tgt, v, env):
        from . import builtins_ as B
        if isinstance(tgt, ast.Name):
            env.set(tgt.id, v)
        elif isinstance(tgt, (ast.Tuple, ast.List)):
            items = self.unpack(v, len(tgt.elts))
            for t, x in zip(tgt.elts, items):
                self.assign(t, x, env)
        elif isinstance(tgt, ast.Attribute):
            obj = self.eval(tgt.value, env)
            if isinstance(obj, ObjV):
                if tgt.attr in ('_hash_val',):
                    return
                obj.fields[tgt.attr] = v
            elif isinstance(obj, ZV) and tgt.attr in ('_hash_val', '_size'):
                return
            else:
                raise OutOfReach('attribute assignment on %r' % (obj,))
        elif isinstance(tgt, ast.Subscript):
            obj = self.eval(tgt.value, env)
            idx = self.eval(tgt.slice, env)
            newv = B.setitem(self, obj, idx, v)
            if newv is not None:
                self.assign(tgt.value, newv, env)
        else:
            raise OutOfReach('assignment target')

    def unpack(self, v, n):
        its = self.concrete_items(v)
        if its is not None:
            if len(its) != n:
                raise PyRaise('ValueError', 'unpack')
            return its
        sq = self.as_seq(v)
        if sq is not None:
            e, k = sq
            if not self.choose(z3.Length(e) == n):
                raise PyRaise('ValueError', 'unpack')
            return [self.wrap(e[i], k) for i in range(n)]
        raise OutOfReach('unpack of %r' % (v,))

    def s_Try(self, node, env):
        fr = self.frames[-1] if self.frames else None
        names = []
        for h in node.handlers:
            if h.type is None:
                names.append(None)
            elif isinstance(h.type, ast.Tuple):
                names.extend(self.exc_name(e, env) for e in h.type.elts)
            else:
                names.append(self.exc_name(h.type, env))
        if fr is not None:
            fr.try_handlers.append(names)
        try:
            try:
                self.exec_block(node.body, env)
            finally:
                if fr is not None:
                    fr.try_handlers.pop()
        except PyRaise as ex:
            for h in node.handlers:
                hn = [None] if h.type is None else (
                    [self.exc_name(e, env) for e in h.type.elts] if isinstance(h.type, ast.Tuple)
                    else [self.exc_name(h.type, env)])
                if any(x is None or self.w.is_subclass_exc(ex.cls, x) for x in hn):
                    if h.name:
                        env.set(h.name, ExcInstV(ex.cls, []))
                    try:
                        self.exec_block(h.body, env)
                    finally:
                        self.exec_block(node.finalbody, env)
                    return
            self.exec_block(node.finalbody, env)
            raise
        except (ReturnSig, BreakSig, ContinueSig):
            self.exec_block(node.finalbody, env)
            raise
        self.exec_block(node.orelse, env)
        self.exec_block(node.finalbody, env)

    def exc_name(self, node, env):
        v = self.eval(node, env)
        if isinstance(v, ExcClassV):
            return v.name
        raise OutOfReach('except clause class')

    # ---- loops ----
    def s_While(self, node, env):
        from . import loops
        return loops.exec_while(self, node, env)

    def s_For(self, node, env):
        from . import loops
        return loops.exec_for(self, node, env)

    def s_With(self, node, env):
        raise OutOfReach('with statement')


class LemmaV(V):
    def __init__(self, name):
        self.name = name


class StarArg:
    def __init__(self, v):
        self.v = v


class ExcInstV(V):
    def __init__(self, cls, args):
        self.cls = cls
        self.args = args


def _to_load(node):
    n = ast.parse(ast.unparse(node), mode='eval').body
    return n


def _is_cacheable(v):
    return isinstance(v, (ZV, int, str, bool, type(None), TupleV, FuncV, ClassV, ExcClassV, ModuleV, SpecFnV,
                          BuiltinV))


# ---------------------------------------------------------------------------------------
# Spec functions: translate the body to a single z3 term by enumerating paths and merging.

def enumerate_paths(world, body_runner, timeout_ms=20000, max_paths=4000):
    """Run `body_runner(run)` for every decision prefix; yields (run, outcome)."""
    pending = [[]]
    n = 0
    while pending:
        prefix = pending.pop()
        run = Run(world, prefix, timeout_ms=timeout_ms)
        n += 1
        if n > max_paths:
            raise OutOfReach('too many paths')
        try:
            out = ('ok', body_runner(run))
        except PathEnd as pe:
            out = ('cut', pe.why)
        except PyRaise as pr:
            out = ('raise', pr.cls)
        pending.extend(run.pending)
        yield run, out


def define_spec(world, name, mi, fn):
    sf = world.specs[name]
    params = [a.arg for a in fn.args.args]
    consts = [z3.Const('%s?%s' % (name, p), world.sorts.sort_of(k)) for p, k in zip(params, sf.pkinds)]
    results = []

    def runner(run):
        run.spec_mode += 1
        run.total_access += 1
        run.no_prove = True
        env = Env(mi, None, None)
        for p, c, k in zip(params, consts, sf.pkinds):
            env.vars[p] = run.wrap(c, k)
        try:
            run.exec_block(fn.body, env)
            raise OutOfReach('spec function %s: path without return' % name)
        except ReturnSig as r:
            return r.val

    def unplace(run, e):
        for p, app in reversed(run.placeholders):
            e = z3.substitute(e, (p, app))
        return e

    world.spec_defining.add(name)
    try:
        for run, out in enumerate_paths(world, runner):
            if out[0] == 'cut':
                continue
            if out[0] == 'raise':
                raise OutOfReach('spec function %s raises %s' % (name, out[1]))
            results.append((unplace(run, z3.And(*run.pc) if run.pc else z3.BoolVal(True)),
                            unplace(run, run.z(out[1], sf.rkind))))
    finally:
        world.spec_defining.discard(name)
    if not results:
        raise OutOfReach('spec function %s has no path' % name)
    body = results[-1][1]
    for cond, val in reversed(results[:-1]):
        body = z3.If(cond, val, body)
    if world.spec_is_recursive(name):
        z3.RecAddDefinition(sf.decl, consts, body)
    else:
        world.spec_macros[name] = (consts, z3.simplify(body))
