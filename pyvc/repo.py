"""Access to the source text of /repo (re-read on every run) as `ast`."""
import ast
import hashlib
import os

REPO = os.environ.get("PYVC_REPO", "/repo")
VERIF = os.path.dirname(os.path.dirname(os.path.abspath(__file__)))


class ModuleInfo:
    def __init__(self, name, path, tree, src):
        self.name = name
        self.path = path
        self.tree = tree
        self.src = src
        self.functions = {}      # name -> FunctionDef
        self.classes = {}        # name -> ClassInfo
        self.imports = {}        # local name -> ('module', modname) | ('attr', modname, attr)
        self.assigns = {}        # name -> list of value expr (module-level simple assignments)
        self._scan(tree.body)

    def _scan(self, body):
        for node in body:
            if isinstance(node, (ast.FunctionDef,)):
                self.functions[node.name] = node
            elif isinstance(node, ast.ClassDef):
                ci = ClassInfo(self, node)
                self.classes[node.name] = ci
                # classes registered as proof macros are also reachable as `macro__<registered name>`
                # (several macro classes of smt/veriT/verit_macro.py share one Python class name)
                for d in node.decorator_list:
                    if isinstance(d, ast.Call) and getattr(d.func, 'id', None) == 'register_macro' and d.args \
                            and isinstance(d.args[0], ast.Constant) and isinstance(d.args[0].value, str):
                        self.classes['macro__' + d.args[0].value] = ci
            elif isinstance(node, ast.Import):
                for a in node.names:
                    local = a.asname or a.name.split('.')[0]
                    self.imports[local] = ('module', a.name if a.asname else a.name.split('.')[0])
            elif isinstance(node, ast.ImportFrom):
                if node.module is None:
                    continue
                for a in node.names:
                    self.imports[a.asname or a.name] = ('attr', node.module, a.name)
            elif isinstance(node, ast.Assign):
                for tgt in node.targets:
                    if isinstance(tgt, ast.Name):
                        self.assigns[tgt.id] = node.value
                    elif isinstance(tgt, ast.Tuple):
                        for i, e in enumerate(tgt.elts):
                            if isinstance(e, ast.Name):
                                self.assigns[e.id] = ('unpack', node.value, i, len(tgt.elts))
            elif isinstance(node, ast.AnnAssign) and isinstance(node.target, ast.Name) and node.value is not None:
                self.assigns[node.target.id] = node.value
            elif isinstance(node, (ast.If, ast.Try)):
                # module-level conditional definitions: scan all branches (later wins)
                for sub in ast.iter_child_nodes(node):
                    pass
                self._scan(getattr(node, 'body', []))


class ClassInfo:
    def __init__(self, module, node):
        self.module = module
        self.node = node
        self.name = node.name
        self.qualname = module.name + '.' + node.name
        self.methods = {}
        self.assigns = {}
        self.bases = []
        for b in node.bases:
            if isinstance(b, ast.Name):
                self.bases.append(b.id)
            elif isinstance(b, ast.Attribute):
                self.bases.append(ast.unparse(b))
        for item in node.body:
            if isinstance(item, ast.FunctionDef):
                self.methods[item.name] = item
            elif isinstance(item, ast.Assign):
                for tgt in item.targets:
                    if isinstance(tgt, ast.Name):
                        self.assigns[tgt.id] = item.value
                    elif isinstance(tgt, ast.Tuple):
                        for i, e in enumerate(tgt.elts):
                            if isinstance(e, ast.Name):
                                self.assigns[e.id] = ('unpack', item.value, i, len(tgt.elts))

    def decorators(self, meth):
        out = []
        for d in self.methods[meth].decorator_list:
            if isinstance(d, ast.Name):
                out.append(d.id)
            elif isinstance(d, ast.Attribute):
                out.append(d.attr)
        return out


class Repo:
    """Lazily parsed view of a source root. `roots` maps package prefixes to directories."""

    def __init__(self, root=None, extra_roots=()):
        self.root = root or REPO
        self.extra_roots = list(extra_roots)
        self.modules = {}

    def find(self, modname):
        rel = modname.replace('.', '/')
        for root in [self.root] + self.extra_roots:
            for cand in (os.path.join(root, rel + '.py'), os.path.join(root, rel, '__init__.py')):
                if os.path.isfile(cand):
                    return cand
        return None

    def module(self, modname):
        if modname in self.modules:
            return self.modules[modname]
        path = self.find(modname)
        if path is None:
            self.modules[modname] = None
            return None
        with open(path, encoding='utf-8') as f:
            src = f.read()
        tree = ast.parse(src, filename=path)
        mi = ModuleInfo(modname, path, tree, src)
        self.modules[modname] = mi
        return mi

    def lookup_function(self, qualname):
        """Resolve 'pkg.mod.Class.meth.inner' to (ModuleInfo, ClassInfo|None, [FunctionDef chain])."""
        parts = qualname.split('.')
        for i in range(len(parts), 0, -1):
            mi = self.module('.'.join(parts[:i]))
            if mi is not None:
                rest = parts[i:]
                break
        else:
            raise KeyError(qualname)
        cls = None
        if rest and rest[0] in mi.classes:
            cls = mi.classes[rest[0]]
            rest = rest[1:]
            if not rest:
                raise KeyError(qualname)
            if rest[0] not in cls.methods:
                raise KeyError(qualname)
            fn = cls.methods[rest[0]]
        else:
            if not rest or rest[0] not in mi.functions:
                raise KeyError(qualname)
            fn = mi.functions[rest[0]]
        chain = [fn]
        for nm in rest[1:]:
            found = None
            for node in ast.walk(chain[-1]):
                if isinstance(node, ast.FunctionDef) and node.name == nm and node is not chain[-1]:
                    found = node
                    break
            if found is None:
                raise KeyError(qualname)
            chain.append(found)
        return mi, cls, chain

    def source_hash(self, qualname):
        mi, cls, chain = self.lookup_function(qualname)
        seg = ast.get_source_segment(mi.src, chain[-1]) or ''
        return hashlib.sha256(seg.encode()).hexdigest()[:16]
