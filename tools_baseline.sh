#!/bin/sh
# run the repository's stable baseline (guard off: there are no hooks) and compare with BASELINE.json
OUT=${1:-/tmp/bl/junit.xml}
mkdir -p "$(dirname "$OUT")"
cd ${REPO:-/repo} && /venv/bin/python -m pytest -ra -q -p no:cacheprovider --timeout=900 --continue-on-collection-errors --junitxml="$OUT" > "$OUT.log" 2>&1
/venv/bin/python - "$OUT" <<'PY'
import json, sys, xml.etree.ElementTree as ET
base = set(json.load(open('/root/.vp/BASELINE.json'))['stable_pass'])
passed = set()
for tc in ET.parse(sys.argv[1]).getroot().iter('testcase'):
    if not any(ch.tag in ('failure', 'error', 'skipped') for ch in tc):
        passed.add('%s::%s' % (tc.get('classname'), tc.get('name')))
missing = sorted(base - passed)
print('baseline stable tests: %d, passing now: %d, missing: %d' % (len(base), len(base & passed), len(missing)))
for m in missing[:20]:
    print('  MISSING', m)
sys.exit(1 if missing else 0)
PY
