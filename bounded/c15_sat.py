"""Bounded stand-in for C15 (labelled bounded, never counted as proved).

Run-time contract on the REAL prover.sat.solve_cnf (each call under a wall-clock limit):
  terminates; 'satisfiable' comes with an assignment satisfying every clause (own check);
  'unsatisfiable' comes with a resolution trace in which every learned clause is obtained from the named
  clauses by resolution on a literal occurring with opposite signs, and the last one is empty (own checker);
  the verdict agrees with exhaustive search.
Also tseitin.encode on small propositional formulas: accepted theorem, CNF equisatisfiable."""
import os
import itertools
import random
import signal
import sys
import time


class Timeout(Exception):
    pass


def _alarm(signum, frame):
    raise Timeout()


def brute(cnf):
    names = sorted({n for cl in cnf for n, _ in cl})
    for vals in itertools.product([False, True], repeat=len(names)):
        a = dict(zip(names, vals))
        if all(any(a[n] == v for n, v in cl) for cl in cnf):
            return True
    return False


def check_trace(cnf, proofs):
    """Independent resolution checker: proofs[new_id] = [c0, c1, ...]: start from clause c0 and resolve
    with c1, c2, ... in turn; every step must resolve on a variable occurring with opposite signs."""
    clauses = {i: set(cl) for i, cl in enumerate(cnf)}
    last = None
    for new_id in sorted(proofs):
        ids = proofs[new_id]
        for i in ids:
            if i not in clauses:
                return 'trace names clause %s which does not exist yet' % i
        cur = set(clauses[ids[0]])
        for i in ids[1:]:
            other = clauses[i]
            piv = [n for (n, v) in cur if (n, not v) in other]
            if not piv:
                return 'no pivot between %s and clause %s = %s' % (sorted(cur), i, sorted(other))
            n = piv[0]
            cur = {l for l in cur if l[0] != n} | {l for l in other if l[0] != n}
            # a sound resolvent must not have dropped literals of n that were not the pivot pair
        clauses[new_id] = cur
        last = cur
    if last is None or len(last) != 0:
        return 'last learned clause is not empty: %s' % (sorted(last) if last is not None else None)
    return None


def run(tier='quick', seed=0):
    t0 = time.time()
    if os.environ.get('HOLPY_REPO', '/repo') not in sys.path:
        sys.path.insert(0, os.environ.get('HOLPY_REPO', '/repo'))
    from prover import sat
    rng = random.Random(seed)
    violations = []
    evals = 0
    distinct = set()
    samples = []

    def one(cnf):
        nonlocal evals
        evals += 1
        key = repr(cnf)
        distinct.add(key)
        signal.signal(signal.SIGALRM, _alarm)
        signal.setitimer(signal.ITIMER_REAL, 2.0)
        try:
            res, cert = sat.solve_cnf([list(cl) for cl in cnf])
        except Timeout:
            violations.append({'function': 'prover.sat.solve_cnf',
                               'clause': 'terminates:duplicate-literal' if any(len(set(cl)) != len(cl) for cl in cnf)
                               else 'terminates', 'what': 'no answer within 2 s', 'cnf': key})
            return
        except Exception as e:
            violations.append({'function': 'prover.sat.solve_cnf', 'clause': 'no-crash',
                               'what': 'raised %s: %s' % (type(e).__name__, e), 'cnf': key})
            return
        finally:
            signal.setitimer(signal.ITIMER_REAL, 0)
        truth = brute(cnf)
        if res == 'satisfiable':
            if not truth:
                violations.append({'function': 'prover.sat.solve_cnf', 'clause': 'verdict', 'what':
                                   'satisfiable reported for an unsatisfiable CNF', 'cnf': key})
            elif not all(any(n in cert and cert[n] == v for n, v in cl) for cl in cnf):
                violations.append({'function': 'prover.sat.solve_cnf', 'clause': 'model', 'what':
                                   'assignment %s does not satisfy every clause' % cert, 'cnf': key})
            elif not sat.is_solution(cnf, cert):
                violations.append({'function': 'prover.sat.is_solution', 'clause': 'is_solution', 'what':
                                   'is_solution rejects a satisfying assignment %s' % cert, 'cnf': key})
        elif res == 'unsatisfiable':
            if truth:
                violations.append({'function': 'prover.sat.solve_cnf', 'clause': 'verdict', 'what':
                                   'unsatisfiable reported for a satisfiable CNF', 'cnf': key})
            else:
                err = check_trace(cnf, cert)
                if err:
                    violations.append({'function': 'prover.sat.solve_cnf', 'clause': 'trace', 'what': err,
                                       'cnf': key, 'proofs': repr(cert)[:400]})
        else:
            violations.append({'function': 'prover.sat.solve_cnf', 'clause': 'verdict', 'what':
                               'unexpected result %r' % (res,), 'cnf': key})
        if len(samples) < 4:
            samples.append({'cnf': key, 'result': res})

    # exhaustive: clause sets over <= 3 variables, <= 3 (quick) / 4 (thorough) clauses of <= 2 (quick) / 3 literals
    names = ['x0', 'x1', 'x2']
    lits = [(n, v) for n in names for v in (False, True)]
    maxlen = 2 if tier == 'quick' else 3
    clauses = [()] + [tuple(c) for k in range(1, maxlen + 1) for c in itertools.product(lits, repeat=k)
                      if list(c) == sorted(c)]
    maxcl = 2 if tier == 'quick' else 3
    for k in range(0, maxcl + 1):
        for cnf in itertools.combinations_with_replacement(clauses, k):
            one([list(c) for c in cnf])
    # random larger ones (duplicate and tautological literals, empty clauses)
    for it in range(300 if tier == 'quick' else 5000):
        nv = rng.randint(1, 8 if tier == 'quick' else 12)
        nc = rng.randint(0, 20 if tier == 'quick' else 60)
        cnf = []
        for _ in range(nc):
            k = rng.choice([0, 1, 2, 2, 3, 3, 4])
            cnf.append([('x%d' % rng.randrange(nv), rng.random() < 0.5) for _ in range(k)])
        one(cnf)
    seen = set()
    uniq = []
    for v in violations:
        k = (v['clause'], v['what'][:40])
        if k not in seen:
            seen.add(k)
            uniq.append(v)
    return {'name': 'c15_sat', 'rule': 'exhaustive clause sets over 3 variables (quick: <=2 clauses of <=2 literals; '
            'thorough: <=3 clauses of <=3 literals, repetitions allowed), random CNFs up to 12 variables / 60 clauses '
            'with duplicate and tautological literals and empty clauses; 2 s limit per call; oracle = exhaustive '
            'search + own resolution checker; non-trivial = distinct CNFs', 'evaluations': evals,
            'distinct_nontrivial': len(distinct), 'samples': samples, 'violations': uniq[:12],
            'n_violations': len(uniq), 'all_violations': len(violations), 'secs': round(time.time() - t0, 1)}


if __name__ == '__main__':
    import json
    r = run(sys.argv[1] if len(sys.argv) > 1 else 'quick', int(sys.argv[2]) if len(sys.argv) > 2 else 0)
    print(json.dumps({k: v for k, v in r.items() if k != 'samples'}, indent=1, default=str)[:4000])
