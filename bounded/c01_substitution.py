"""Bounded stand-in for the SUBSTITUTION rule of C01 (labelled bounded, never counted as proved).

Run-time contract on the real kernel.thm.Thm.substitution: the result is the instance of ALL hypotheses
and of the conclusion by ONE instantiation (the final type instantiation, the schematic-variable map
and the variable map), computed by the independent spec functions of /verif/spec/subst.py.
Inputs: enumerated small sequents over schematic type variables / schematic variables, instantiations
with svar bindings, variable bindings and preset type bindings."""
import itertools
import random
import sys
import time


def run(tier='quick', seed=0):
    t0 = time.time()
    for p in ('/repo', '/verif'):
        if p not in sys.path:
            sys.path.insert(0, p)
    from kernel.type import STVar, TConst, TFun, BoolType, NatType, TyInst
    from kernel.term import SVar, Var, Const, Comb, Abs, Bound, Inst, Eq
    from kernel.thm import Thm
    from spec.subst import subst_spec, inst_ty
    rng = random.Random(seed)
    a, b = STVar('a'), STVar('b')
    x, y = SVar('x', a), SVar('y', b)
    xb = SVar('x', BoolType)
    z = Var('z', NatType)
    w = Var('w', BoolType)
    c = Const('c', a)
    d = Const('d', b)
    P = Const('P', TFun(a, BoolType))
    Q = Const('Q', TFun(b, BoolType))
    allx = Const('all', TFun(TFun(a, BoolType), BoolType))
    atoms = [P(x), P(c), Q(y), Q(d), Eq(x, c), allx(Abs('u', a, Const('equals', TFun(a, a, BoolType))(Bound(0), c))), w, Eq(z, z), xb,
             Const('R', TFun(a, b, BoolType))(c, d), Const('R', TFun(a, b, BoolType))(x, y)]
    values = {
        'x': [Const('zero', NatType), Const('true', BoolType), Var('v', NatType), Bound(0)],
        'y': [Const('one', NatType), Const('false', BoolType)],
    }
    violations = []
    evals = 0
    distinct = set()
    samples = []
    combos = list(itertools.product(range(len(atoms)), repeat=2))
    rng.shuffle(combos)
    n_max = 700 if tier == 'quick' else len(combos) * 6
    count = 0
    for (i, j) in combos:
        for prop in atoms:
            count += 1
            if count > n_max:
                break
            hyps = (atoms[i],) if i == j else (atoms[i], atoms[j])
            th = Thm(prop, hyps)
            inst = Inst()
            if rng.random() < 0.8:
                inst['x'] = rng.choice(values['x'])
            if rng.random() < 0.5:
                inst['y'] = rng.choice(values['y'])
            if rng.random() < 0.3:
                inst.var_inst['z'] = Const('zero', NatType)
            if rng.random() < 0.3:
                inst.var_inst['w'] = Const('true', BoolType)
            if rng.random() < 0.2:
                inst.tyinst['b'] = NatType
            shown = (str(th), str(inst))
            try:
                res = Thm.substitution(inst, th)
            except Exception:
                evals += 1
                continue
            evals += 1
            distinct.add(shown)
            tau = dict(inst.tyinst)
            sv, vv = dict(inst), dict(inst.var_inst)
            want_prop = subst_spec(inst_ty(th.prop, tau), sv, vv)
            bad = None
            # capture: a value with loose bound variables is inserted under binders as it is
            for nm, val in list(sv.items()) + list(vv.items()):
                if val.is_open():
                    bad = 'instantiation %s := %s is an open term but the rule returned %s' % (nm, val, res)
            if res.prop != want_prop:
                bad = 'conclusion %s, expected %s' % (res.prop, want_prop)
            for h in th.hyps:
                wh = subst_spec(inst_ty(h, tau), sv, vv)
                if wh not in res.hyps:
                    bad = 'hypothesis %s should have become %s; result hypotheses %s' % (
                        h, wh, [str(t) for t in res.hyps])
            if bad:
                violations.append({'function': 'kernel.thm.Thm.substitution', 'clause': 'uniform-instance',
                                   'what': bad, 'sequent': shown[0], 'inst': shown[1],
                                   'final_tyinst': str(inst.tyinst)})
            elif len(samples) < 4:
                samples.append({'sequent': shown[0], 'inst': shown[1], 'result': str(res)})
    seen = set()
    uniq = []
    for v in violations:
        k = v['what'][:60]
        if k not in seen:
            seen.add(k)
            uniq.append(v)
    return {'name': 'c01_substitution', 'rule': 'sequents with <=2 hypotheses and a conclusion from 11 atoms over '
            'schematic types ?a ?b, svars ?x ?y, variables z w; random instantiations (svar, variable, preset type '
            'bindings); oracle = spec/subst.py applied with the final type instantiation to every part; '
            'non-trivial = distinct (sequent, instantiation) pairs on which the rule returned',
            'evaluations': evals, 'distinct_nontrivial': len(distinct), 'samples': samples,
            'violations': uniq[:10], 'n_violations': len(uniq), 'secs': round(time.time() - t0, 1)}


if __name__ == '__main__':
    import json
    r = run(sys.argv[1] if len(sys.argv) > 1 else 'quick', 0)
    print(json.dumps({k: v for k, v in r.items() if k != 'samples'}, indent=1, default=str)[:3000])
