"""Bounded stand-in for C07 (labelled bounded, never counted as proved).

Run-time contract on the REAL syntax.printer / syntax.parser: for every generated well-typed term t over the
theory `real` (constants at declared instances), in ASCII and Unicode, with line_length in {None, 20, 80}:
parse_term(print_term(t)) == t in a context declaring its free variables; likewise for types and sequents.
The result must not depend on what was printed before (the run prints every term twice, once cold, once
after other terms)."""
import os
import random
import sys
import time


def run(tier='quick', seed=0):
    t0 = time.time()
    if os.environ.get('HOLPY_REPO', '/repo') not in sys.path:
        sys.path.insert(0, os.environ.get('HOLPY_REPO', '/repo'))
    from logic import basic, context
    basic.load_theory('real')
    from kernel import term as K
    from kernel.type import TFun, BoolType, NatType, IntType, RealType, TVar, TConst
    from kernel.term import Var, Const, Lambda, Forall, Exists, And, Or, Not, Implies, Eq, Nat, Real, Int
    from kernel.thm import Thm
    from logic import logic
    from syntax import parser, printer
    from syntax.settings import settings
    rng = random.Random(seed)
    vars_ = {'x': 'nat', 'y': 'nat', 'a': 'real', 'b': 'real', 'P': 'bool', 'Q': 'bool', 'f': 'nat => nat',
             'S': 'nat set', 'i': 'int', 'gi': 'int => int', 'hr': 'real => real => real', 'k': 'nat', 'm': 'nat'}
    context.set_context('real', vars=vars_)
    x, y = Var('x', NatType), Var('y', NatType)
    a, b = Var('a', RealType), Var('b', RealType)
    P, Q = Var('P', BoolType), Var('Q', BoolType)
    f = Var('f', TFun(NatType, NatType))
    iv = Var('i', IntType)
    violations = []
    evals = 0
    distinct = set()
    samples = []

    def gen_num(T, d):
        k = rng.random()
        base = {NatType: [x, y, Nat(0), Nat(1), Nat(2), Nat(13)], RealType: [a, b, Real(0), Real(1), Real(3)],
                IntType: [iv, Int(0), Int(2)]}[T]
        if d <= 0 or k < 0.3:
            t = rng.choice(base)
            if T != NatType and rng.random() < 0.15:
                t = K.uminus(T)(t)
            return t
        if k < 0.45:
            return K.plus(T)(gen_num(T, d - 1), gen_num(T, d - 1))
        if k < 0.6:
            return K.minus(T)(gen_num(T, d - 1), gen_num(T, d - 1))
        if k < 0.75:
            return K.times(T)(gen_num(T, d - 1), gen_num(T, d - 1))
        if k < 0.82 and T == NatType:
            return f(gen_num(T, d - 1))
        if k < 0.88 and T == RealType:
            return K.of_nat(RealType)(gen_num(NatType, d - 1))
        if k < 0.93 and T == RealType:
            return K.divides(T)(gen_num(T, d - 1), gen_num(T, d - 1))
        if k < 0.97:
            return logic.mk_if(gen_bool(d - 1), gen_num(T, d - 1), gen_num(T, d - 1))
        pw = rng.random()
        if pw < 0.5:
            return K.nat_power(T)(gen_num(T, d - 1), Nat(2))
        if pw < 0.75:
            # a power whose exponent is itself a power / a power of a power (associativity of ^)
            return K.nat_power(T)(gen_num(T, d - 1), K.nat_power(NatType)(rng.choice([x, y, Nat(2)]), rng.choice([x, Nat(2), Nat(3)])))
        return K.nat_power(T)(K.nat_power(T)(gen_num(T, d - 1), rng.choice([x, Nat(2)])), rng.choice([y, Nat(3)]))

    def gen_bool(d):
        k = rng.random()
        if d <= 0 or k < 0.2:
            return rng.choice([P, Q, K.true, K.false])
        if k < 0.32:
            return And(gen_bool(d - 1), gen_bool(d - 1))
        if k < 0.44:
            return Or(gen_bool(d - 1), gen_bool(d - 1))
        if k < 0.54:
            return Implies(gen_bool(d - 1), gen_bool(d - 1))
        if k < 0.62:
            return Not(gen_bool(d - 1))
        if k < 0.7:
            return Eq(gen_bool(d - 1), gen_bool(d - 1))
        T = rng.choice([NatType, RealType, IntType])
        if k < 0.78:
            return Eq(gen_num(T, d - 1), gen_num(T, d - 1))
        if k < 0.86:
            return rng.choice([K.less, K.less_eq, K.greater, K.greater_eq])(T)(gen_num(T, d - 1), gen_num(T, d - 1))
        if k < 0.93:
            v = Var(rng.choice(['x', 'z', 'n']), NatType)     # bound name may clash with a free name
            body = Eq(K.plus(NatType)(v, gen_num(NatType, d - 1)), gen_num(NatType, d - 1))
            return rng.choice([Forall, Exists])(v, body)
        v = Var('u', NatType)
        return Eq(Lambda(v, gen_num(NatType, d - 1)), Lambda(v, K.plus(NatType)(v, Nat(1))))

    gi = Var('gi', TFun(IntType, IntType))
    hr = Var('hr', TFun(RealType, RealType, RealType))

    def gen_app():
        """function variables applied to literals, negative ones included, at int / real"""
        lit_i = lambda: rng.choice([Int(-2), Int(-1), Int(0), Int(3), iv, K.uminus(IntType)(iv)])
        lit_r = lambda: rng.choice([Real(-3), Real(-1), Real(2), a, K.uminus(RealType)(a), Real(0)])
        k = rng.random()
        if k < 0.35:
            t = gi(lit_i())
            if rng.random() < 0.4:
                t = gi(t)
            return Eq(t, lit_i()) if rng.random() < 0.5 else K.less(IntType)(K.plus(IntType)(t, lit_i()), lit_i())
        t = hr(lit_r(), lit_r())
        if rng.random() < 0.3:
            t = hr(t, lit_r())
        return Eq(t, lit_r()) if rng.random() < 0.5 else K.less_eq(RealType)(K.times(RealType)(lit_r(), t), lit_r())

    from data import set as hol_set
    from kernel.term import Abs, Bound

    def gen_nest():
        """two or three nested binders (forall / exists / lambda-equation / set comprehension) whose suggested names
        are drawn with repetition from {k, m, x}; the body mentions every bound variable and the free k, m, x"""
        depth = rng.choice([2, 2, 3])
        names = [rng.choice(['k', 'm', 'x']) for _ in range(depth)]
        atoms = [Bound(i) for i in range(depth)] + [Var('k', NatType), Var('m', NatType), x]
        def num():
            a1, a2 = rng.choice(atoms), rng.choice(atoms)
            return rng.choice([a1, K.plus(NatType)(a1, a2), f(a1)])
        body = rng.choice([K.less, K.less_eq])(NatType)(num(), num())
        if rng.random() < 0.5:
            body = And(body, K.equals(NatType)(num(), num()))
        allC = lambda: Const('all', TFun(TFun(NatType, BoolType), BoolType))
        exC = lambda: Const('exists', TFun(TFun(NatType, BoolType), BoolType))
        t = body
        for lvl in range(depth):            # innermost binder first
            nm = names[depth - 1 - lvl]
            ab = Abs(nm, NatType, t)
            kind = rng.choice(['all', 'exists', 'collect', 'some', 'the'])
            if kind == 'all':
                t = allC()(ab)
            elif kind == 'exists':
                t = exC()(ab)
            elif kind in ('some', 'the'):
                # e = (SOME nm. t) / (THE nm. t): the choice operators are binders as well
                loose = depth - lvl - 1
                elem = rng.choice([Var('k', NatType), x] + [Bound(i) for i in range(loose)])
                op = Const('Some' if kind == 'some' else 'The', TFun(TFun(NatType, BoolType), NatType))
                t = K.equals(NatType)(elem, op(ab)) if rng.random() < 0.5 else K.less(NatType)(op(ab), elem)
            else:
                # e : {nm. t}: membership keeps the term boolean; e may be an outer bound variable
                loose = depth - lvl - 1
                elem = rng.choice([Var('k', NatType), x] + [Bound(i) for i in range(loose)])
                t = hol_set.mem(NatType)(elem, hol_set.collect(NatType)(ab))
        return t

    def t_is_bool(t):
        try:
            return t.is_open() or t.get_type() == BoolType
        except Exception:
            return True

    def roundtrip(t, unicode, ll):
        settings.unicode = unicode
        settings.line_length = ll
        try:
            s = printer.print_term(t)
        finally:
            settings.unicode = False
            settings.line_length = None
        if isinstance(s, list):
            s = ' '.join(s)
        return s, parser.parse_term(s)

    n = 600 if tier == 'quick' else 8000
    pool = []
    someC = Const('Some', TFun(TFun(NatType, BoolType), NatType))
    theC = Const('The', TFun(TFun(NatType, BoolType), NatType))
    for opC in (someC, theC):
        for body in (K.less(NatType)(Nat(0), Bound(0)), K.equals(NatType)(Bound(0), Bound(0)),
                     K.less(NatType)(Bound(0), x), And(K.less(NatType)(Nat(0), Bound(0)), P)):
            tt = opC(Abs('v', NatType, body))
            pool.append(K.equals(NatType)(tt, tt))
            pool.append(K.less(NatType)(K.plus(NatType)(x, tt), y))
    for it in range(n):
        r_ = rng.random()
        if r_ < 0.15:
            t = gen_app()
        elif r_ < 0.35:
            t = gen_nest()
            if t is None or t.is_open():
                continue
        elif r_ < 0.8:
            t = gen_bool(rng.choice([1, 2, 3]))
        else:
            t = gen_num(rng.choice([NatType, RealType, IntType]), 2)
        try:
            t.checked_get_type()
        except Exception:
            continue
        pool.append(t)
    for rnd in (0, 1):          # second round: every term again, after all others were printed
        for t in pool:
            for unicode in (False, True):
                for ll in ((None, 20, 80) if tier == 'thorough' else (None, 20)):
                    evals += 1
                    try:
                        s, back = roundtrip(t, unicode, ll)
                    except Exception as e:
                        violations.append({'function': 'syntax.parser.parse_term', 'clause': 'roundtrip',
                                           'what': 'print/parse raised %s: %s' % (type(e).__name__, str(e)[:100]),
                                           'term': repr(t), 'unicode': unicode, 'line_length': ll})
                        continue
                    distinct.add(repr(t))
                    if back != t:
                        violations.append({'function': 'syntax.printer.print_term', 'clause': 'roundtrip',
                                           'what': 'printed as %r, parsed back as %r' % (s, back),
                                           'term': repr(t), 'unicode': unicode, 'line_length': ll, 'round': rnd})
                    elif len(samples) < 4:
                        samples.append({'term': repr(t)[:200], 'printed': s})
    # types
    for T in [TFun(NatType, BoolType), TFun(TFun(NatType, NatType), RealType), TConst('set', NatType),
              TFun(TVar('a'), TConst('set', TVar('a')), BoolType)]:
        evals += 1
        try:
            if parser.parse_type(printer.print_type(T)) != T:
                violations.append({'function': 'syntax.printer.print_type', 'clause': 'roundtrip',
                                   'what': 'type %r printed as %r does not parse back' % (T, printer.print_type(T))})
        except Exception as e:
            violations.append({'function': 'syntax.parser.parse_type', 'clause': 'roundtrip',
                               'what': 'type %r: %s' % (T, e)})
    # sequents
    for t in pool[:60]:
        if t.get_type() == BoolType:
            th = Thm(t, P)
            evals += 1
            try:
                if parser.parse_thm(printer.print_thm(th)) != th:
                    violations.append({'function': 'syntax.printer.print_thm', 'clause': 'roundtrip',
                                       'what': 'sequent printed as %r does not parse back' % printer.print_thm(th)})
            except Exception as e:
                violations.append({'function': 'syntax.parser.parse_thm', 'clause': 'roundtrip',
                                   'what': 'sequent %r: %s %s' % (printer.print_thm(th), type(e).__name__, str(e)[:80])})
    # closed terms with a polymorphic constant whose type instance nothing in the printed text determines
    for src in ["finite ({}::'a set)", "({}::'a set) = {}", "card ({}::'a set) = 0", "(univ::'a set) = univ",
                "x Mem ({}::nat set)", "finite ({}::nat set)"]:
        try:
            t = parser.parse_term(src)
        except Exception:
            continue
        for unicode in (False, True):
            evals += 1
            try:
                s_, back = roundtrip(t, unicode, None)
                ok_ = (back == t)
            except Exception as e:
                s_, ok_ = '%s: %s' % (type(e).__name__, str(e)[:60]), False
            if not ok_:
                violations.append({'function': 'syntax.printer.print_term', 'clause': 'roundtrip:undetermined-type-instance',
                                   'what': 'polymorphic constant without annotation: %s does not print / parse back (%s)' % (
                                       src, s_), 'term': repr(t), 'unicode': unicode})
    # instantiations and type instantiations
    from kernel.term import Inst
    from kernel.type import TyInst
    from syntax.settings import global_setting
    bools = [t for t in pool if t.get_type() == BoolType]
    nats = [t for t in pool if t.get_type() == NatType]
    for i in range(0, min(len(bools), len(nats), 60 if tier == 'quick' else 400)):
        inst = Inst(s=bools[i], t=nats[i], u=bools[-1 - i])
        for unicode in (False, True):
            evals += 1
            try:
                with global_setting(unicode=unicode, highlight=False):
                    txt = printer.print_str_args('substitution', inst, None)
                back = parser.parse_inst(txt)
                if dict(back) != dict(inst):
                    violations.append({'function': 'syntax.parser.parse_inst', 'clause': 'roundtrip',
                                       'what': 'instantiation printed as %r parses back differently' % txt})
            except Exception as e:
                violations.append({'function': 'syntax.parser.parse_inst', 'clause': 'roundtrip',
                                   'what': 'instantiation: %s %s' % (type(e).__name__, str(e)[:100])})
    for tyinst in (TyInst(a=NatType), TyInst(a=TFun(NatType, BoolType), b=TConst('set', TVar('c'))), TyInst()):
        evals += 1
        try:
            with global_setting(unicode=False, highlight=False):
                txt = printer.print_str_args('subst_type', tyinst, None)
            if dict(parser.parse_tyinst(txt)) != dict(tyinst):
                violations.append({'function': 'syntax.parser.parse_tyinst', 'clause': 'roundtrip',
                                   'what': 'type instantiation printed as %r parses back differently' % txt})
        except Exception as e:
            violations.append({'function': 'syntax.parser.parse_tyinst', 'clause': 'roundtrip',
                               'what': 'type instantiation: %s %s' % (type(e).__name__, str(e)[:100])})
    # exported proof steps: one item per argument signature; the argument is the step's own conclusion, another
    # term, or part of a tuple; exported under every highlight / unicode setting, parsed back, compared field by field
    from kernel.proof import ProofItem
    from kernel import theory as ktheory
    from typing import Tuple, List
    from kernel.term import Term
    from kernel.type import Type

    def ty_only_inst():
        i_ = Inst()
        i_.tyinst = TyInst(a=NatType)
        return i_

    def items_for(t, other):
        th_own, th_hyp = Thm(t), Thm(t, P)
        res = []
        for th in (th_own, th_hyp, None):
            for arg in (t, other):
                res += [ProofItem(3, 'implies_intr', args=arg, prevs=[2], th=th),
                        ProofItem((1, 2), 'forall_elim', args=arg, prevs=[(1, 1)], th=th),
                        ProofItem(0, 'assume', args=arg, th=th),
                        ProofItem(4, 'rewrite_goal', args=('conj_comm', arg), prevs=[1, 2], th=th),
                        ProofItem(5, 'apply_theorem_for', args=('conjI', Inst(A=arg, B=other)), prevs=[3, 4], th=th),
                        ProofItem(6, 'apply_fact_for', args=[arg, other], prevs=[0], th=th),
                        ProofItem(7, 'apply_induct', args=('nat_induct', x, arg), prevs=[5, 6], th=th),
                        ProofItem(8, 'z3', args=arg, prevs=[0, 1], th=th)]
            res += [ProofItem(2, 'apply_theorem', args='conjI', prevs=[0, 1], th=th),
                    ProofItem(2, 'implies_elim', prevs=[0, 1], th=th),
                    ProofItem(1, 'subst_type', args=TyInst(a=NatType), prevs=[0], th=th),
                    ProofItem(1, 'substitution', args=Inst(s=t, u=other), prevs=[0], th=th),
                    ProofItem(0, 'variable', args=('x', NatType), th=th),
                    ProofItem(5, 'apply_theorem_for', args=('finite_empty', ty_only_inst()), prevs=[], th=th),
                    ProofItem(9, 'sorry', th=th_hyp)]
        return res

    def same_args(a1, a2):
        if isinstance(a1, Inst) and isinstance(a2, Inst) and dict(a1.tyinst) != dict(a2.tyinst):
            return False
        if isinstance(a1, (Inst, TyInst)) and isinstance(a2, (Inst, TyInst)):
            return dict(a1) == dict(a2)
        if isinstance(a1, (tuple, list)) and isinstance(a2, (tuple, list)):
            return len(a1) == len(a2) and all(same_args(u, v) for u, v in zip(a1, a2))
        return a1 == a2
    n_items = 0
    for i in range(min(len(bools) - 1, 12 if tier == 'quick' else 80)):
        for item in items_for(bools[i], bools[i + 1]):
            try:
                ktheory.thy.get_proof_rule_sig(item.rule)
            except Exception:
                continue        # rule not present in this theory
            for unicode in (False, True):
                for hl in (False, True):
                    evals += 1
                    n_items += 1
                    try:
                        with global_setting(unicode=unicode, highlight=hl):
                            data = printer.export_proof_item(item)[0]
                        back = parser.parse_proof_rule(data)
                        diff = [f_ for f_ in ('id', 'rule', 'prevs', 'th') if getattr(back, f_) != getattr(item, f_)]
                        if not same_args(back.args, item.args):
                            diff.append('args')
                        if diff:
                            only_ty = diff == ['args'] and isinstance(item.args, tuple) and any(
                                isinstance(a_, Inst) and len(a_.tyinst) > 0 for a_ in item.args)
                            violations.append({'function': 'syntax.printer.export_proof_item',
                                               'clause': 'roundtrip:type-instantiation-of-inst' if only_ty else 'roundtrip',
                                               'what': 'step %s: fields %s differ after export / parse (args exported as %r)' % (
                                                   item.rule, diff, data['args']), 'unicode': unicode, 'highlight': hl})
                    except Exception as e:
                        violations.append({'function': 'syntax.parser.parse_proof_rule', 'clause': 'roundtrip',
                                           'what': 'step %s: export / parse raised %s %s' % (
                                               item.rule, type(e).__name__, str(e)[:100]),
                                           'unicode': unicode, 'highlight': hl})
    seen = set()
    uniq = []
    for v in violations:
        k = (v['function'], v['what'][:40])
        if k not in seen:
            seen.add(k)
            uniq.append(v)
    return {'name': 'c07_roundtrip', 'rule': 'random well-typed terms (depth <= 3) over the theory real: connectives, '
            'quantifiers with bound names clashing with free ones, lambda, = at bool/nat/int/real, comparisons, '
            '+ - * / uminus power of_nat if-then-else, numerals at three types, function variables applied to negative '
            'literals, 2-3 nested binders (all / exists / set comprehension) with repeated suggested names; ASCII and Unicode, line_length '
            'None/20(/80), printed twice (cold / after all others); instantiations, type instantiations and exported proof '
            'steps of 15 argument signatures (argument = own conclusion / other term) under 4 settings; non-trivial = distinct terms', 'evaluations': evals,
            'distinct_nontrivial': len(distinct), 'samples': samples, 'violations': uniq[:12],
            'n_violations': len(uniq), 'all_violations': len(violations), 'secs': round(time.time() - t0, 1)}


if __name__ == '__main__':
    import json
    r = run(sys.argv[1] if len(sys.argv) > 1 else 'quick', int(sys.argv[2]) if len(sys.argv) > 2 else 0)
    print(json.dumps({k: v for k, v in r.items() if k != 'samples'}, indent=1, default=str)[:6000])
