"""Bounded stand-in for C10 (labelled bounded, never counted as proved).

Run-time contract on REAL conversions (logic/conv.py combinators, data.nat / data.proplogic normalisers,
real_norm_conv, nat_conv):
  (a) cv.get_proof_term(t) either raises or returns a proof term whose proposition is an equation with
      left side exactly t, without hypotheses (no conditions are supplied), and the exported proof is
      accepted by the checker with the same sequent; cv.eval(t) reports the same equation;
  (b) canonicity: rearrangements (associativity, commutativity, distribution, duplicated members) of one
      expression get identical normal forms; normalising a normal form changes nothing."""
import os
import itertools
import random
import sys
import time


def run(tier='quick', seed=0):
    t0 = time.time()
    if os.environ.get('HOLPY_REPO', '/repo') not in sys.path:
        sys.path.insert(0, os.environ.get('HOLPY_REPO', '/repo'))
    from logic import basic
    basic.load_theory('real')
    from kernel import term as K, theory
    from kernel.type import NatType, RealType, BoolType
    from kernel.term import Var, Nat, Real, And, Or, Not, Implies, Eq
    from kernel.proofterm import ProofTerm
    from logic import conv
    from logic.conv import ConvException
    from data import nat, real, proplogic
    rng = random.Random(seed)
    violations = []
    evals = 0
    distinct = set()
    samples = []

    def check_conv(name, cv, t):
        nonlocal evals
        evals += 1
        try:
            pt = cv.get_proof_term(t)
        except Exception:
            return None
        distinct.add((name, repr(t)))
        bad = None
        if not pt.prop.is_equals():
            bad = 'result %s is not an equation' % pt.prop
        elif pt.prop.lhs != t:
            bad = 'left side is %s, not the given term' % pt.prop.lhs
        elif len(pt.hyps) > 0:
            bad = 'hypotheses %s although no condition was supplied' % [str(h) for h in pt.hyps]
        else:
            try:
                th = theory.check_proof(pt.export(), check_level=0)
                if not th.can_prove(pt.th) or th.prop != pt.prop:
                    bad = 'checker proves %s, conversion claims %s' % (th, pt.th)
            except Exception as e:
                bad = 'exported proof rejected by the checker: %s %s' % (type(e).__name__, str(e)[:120])
            try:
                ev = cv.eval(t)
                if ev.prop != pt.prop:
                    bad = 'eval reports %s, proof term proves %s' % (ev.prop, pt.prop)
            except Exception:
                pass
        if bad:
            violations.append({'function': 'conversion ' + name, 'clause': 'equation-about-t', 'what': bad,
                               'term': repr(t)})
        return pt

    # ---- natural-number polynomials
    x, y, z = Var('x', NatType), Var('y', NatType), Var('z', NatType)

    def gen_nat(d):
        k = rng.random()
        if d <= 0 or k < 0.35:
            return rng.choice([x, y, z, Nat(0), Nat(1), Nat(2), Nat(3)])
        if k < 0.65:
            return gen_nat(d - 1) + gen_nat(d - 1)
        if k < 0.9:
            return gen_nat(d - 1) * gen_nat(d - 1)
        return K.nat_power(NatType)(gen_nat(d - 1), Nat(rng.choice([0, 1, 2, 2, 3])))

    def rearrange(t, T):
        """A term equal to t as a polynomial: random commutation / re-association / distribution."""
        if t.is_plus() or t.is_times():
            a, b = rearrange(t.arg1, T), rearrange(t.arg, T)
            op = K.plus(T) if t.is_plus() else K.times(T)
            r = rng.random()
            if r < 0.4:
                a, b = b, a
            if t.is_times() and b.is_plus() and r > 0.7:
                return op(a, b.arg1) + op(a, b.arg)       # distribute
            if b.is_comb() and b.head == op and rng.random() < 0.5:
                res = op(op(a, b.arg1), b.arg)           # re-associate
            else:
                res = op(a, b)
            r2 = rng.random()
            if r2 < 0.3:
                # neutral elements / vanishing summands at a random side
                zero, one = K.Number(T, 0), K.Number(T, 1)
                v0 = rng.choice([zero, K.times(T)(zero, rng.choice([a, b])), K.times(T)(rng.choice([a, b]), zero)])
                res = rng.choice([lambda: res + v0, lambda: v0 + res, lambda: res * one, lambda: one * res])()
            return res
        if t.is_comb('power', 2) and t.arg.is_number() and t.arg.get_type() == NatType and t.arg.dest_number() <= 4:
            # a power with a numeral exponent written out as a product (or partly: b^(n-1) * b)
            base, n_ = t.arg1, t.arg.dest_number()
            r = rng.random()
            if r < 0.45:
                res = K.Number(T, 1) if n_ == 0 else rearrange(base, T)
                for _ in range(n_ - 1):
                    res = res * rearrange(base, T)
                return res
            if r < 0.7 and n_ >= 2:
                return K.nat_power(T)(rearrange(base, T), Nat(n_ - 1)) * base
            return K.nat_power(T)(rearrange(base, T), t.arg)
        return t

    def has_power(t):
        return t.is_comb('power', 2) or (t.is_comb() and (has_power(t.fun) or has_power(t.arg)))

    n = 250 if tier == 'quick' else 4000
    for it in range(3 * n):
        t = gen_nat(rng.choice([1, 2, 3]))
        pt = check_conv('nat.norm_full', nat.norm_full(), t)
        if pt is None:
            continue
        t2 = rearrange(t, NatType)
        pt2 = check_conv('nat.norm_full', nat.norm_full(), t2)
        if pt2 is not None and pt.prop.rhs != pt2.prop.rhs:
            violations.append({'function': 'conversion nat.norm_full',
                               'clause': 'canonical:nat-power-opaque' if has_power(t) else 'canonical',
                               'what': 'equal polynomials get different normal forms %s / %s' % (pt.prop.rhs, pt2.prop.rhs),
                               'term': repr(t), 'rearranged': repr(t2)})
        pt3 = check_conv('nat.norm_full', nat.norm_full(), pt.prop.rhs)
        if pt3 is not None and pt3.prop.rhs != pt.prop.rhs:
            violations.append({'function': 'conversion nat.norm_full', 'clause': 'idempotent',
                               'what': 'normal form %s is normalised further to %s' % (pt.prop.rhs, pt3.prop.rhs),
                               'term': repr(t)})
        check_conv('nat.nat_conv', nat.nat_conv(), t) if not t.get_vars() else None
        if len(samples) < 3:
            samples.append({'conv': 'nat.norm_full', 'term': str(t), 'normal_form': str(pt.prop.rhs)})

    # ---- real polynomials through real_norm_conv
    xr, yr = Var('x', RealType), Var('y', RealType)

    def gen_real(d):
        k = rng.random()
        if d <= 0 or k < 0.35:
            return rng.choice([xr, yr, Real(0), Real(1), Real(2), Real(-1)])
        if k < 0.6:
            return gen_real(d - 1) + gen_real(d - 1)
        if k < 0.72:
            return gen_real(d - 1) - gen_real(d - 1)
        if k < 0.9:
            return gen_real(d - 1) * gen_real(d - 1)
        return K.nat_power(RealType)(gen_real(d - 1), Nat(rng.choice([0, 1, 2, 3, 3, 4])))

    for it in range(n):
        t = gen_real(rng.choice([1, 2, 3]))
        evals += 1
        try:
            pt = real.real_norm_conv().get_proof_term(t)
            t2 = rearrange(t, RealType)
            pt2 = real.real_norm_conv().get_proof_term(t2)
        except Exception:
            continue
        distinct.add(('real_norm_conv', repr(t)))
        if pt.prop.lhs != t:
            violations.append({'function': 'conversion real.real_norm_conv', 'clause': 'equation-about-t',
                               'what': 'left side is %s' % pt.prop.lhs, 'term': repr(t)})
        if pt.prop.rhs != pt2.prop.rhs:
            violations.append({'function': 'conversion real.real_norm_conv', 'clause': 'canonical',
                               'what': 'equal polynomials get different normal forms %s / %s' % (pt.prop.rhs, pt2.prop.rhs),
                               'term': repr(t), 'rearranged': repr(t2)})
        try:
            pt3 = real.real_norm_conv().get_proof_term(pt.prop.rhs)
            if pt3.prop.rhs != pt.prop.rhs:
                violations.append({'function': 'conversion real.real_norm_conv', 'clause': 'idempotent',
                                   'what': 'normal form %s is normalised further to %s' % (pt.prop.rhs, pt3.prop.rhs),
                                   'term': repr(t)})
        except Exception:
            pass

    # ---- propositional normalisation
    A, B, C = Var('A', BoolType), Var('B', BoolType), Var('C', BoolType)

    def gen_prop(d):
        k = rng.random()
        if d <= 0 or k < 0.35:
            return rng.choice([A, B, C])
        if k < 0.55:
            return And(gen_prop(d - 1), gen_prop(d - 1))
        if k < 0.75:
            return Or(gen_prop(d - 1), gen_prop(d - 1))
        if k < 0.9:
            return Not(gen_prop(d - 1))
        return Implies(gen_prop(d - 1), gen_prop(d - 1))

    def shuffle_prop(t):
        if t.is_conj() or t.is_disj():
            parts = t.strip_conj() if t.is_conj() else t.strip_disj()
            parts = [shuffle_prop(p) for p in parts]
            rng.shuffle(parts)
            if rng.random() < 0.3:
                parts.append(rng.choice(parts))     # duplicated member
            return And(*parts) if t.is_conj() else Or(*parts)
        return t

    for it in range(n):
        t = gen_prop(rng.choice([1, 2, 3]))
        pt = check_conv('proplogic.norm_full', proplogic.norm_full(), t)
        check_conv('proplogic.nnf_conv', proplogic.nnf_conv(), t)
        if pt is None:
            continue
        t2 = shuffle_prop(t)
        pt2 = check_conv('proplogic.norm_full', proplogic.norm_full(), t2)
        if pt2 is not None and pt.prop.rhs != pt2.prop.rhs:
            lits = set()
            def collect(u):
                if u.is_conj() or u.is_disj():
                    for w in (u.strip_conj() if u.is_conj() else u.strip_disj()):
                        collect(w)
                else:
                    w = u
                    while w.is_not() and w.arg.is_not():
                        w = w.arg.arg
                    lits.add(w)
            collect(t)
            # the members as the normaliser itself sees them (after De Morgan etc.)
            collect(pt.prop.rhs)
            collect(pt2.prop.rhs)
            compl = any(Not(l) in lits for l in lits)
            violations.append({'function': 'conversion proplogic.norm_full',
                               'clause': 'canonical:complementary-members' if compl else 'canonical',
                               'what': 'same members, different normal forms %s / %s' % (pt.prop.rhs, pt2.prop.rhs),
                               'term': repr(t), 'rearranged': repr(t2)})
        pt3 = check_conv('proplogic.norm_full', proplogic.norm_full(), pt.prop.rhs)
        if pt3 is not None and pt3.prop.rhs != pt.prop.rhs:
            lits3 = set()

            def collect3(u):
                if u.is_conj() or u.is_disj():
                    for w in (u.strip_conj() if u.is_conj() else u.strip_disj()):
                        collect3(w)
                else:
                    w = u
                    while w.is_not() and w.arg.is_not():
                        w = w.arg.arg
                    lits3.add(w)
            collect3(pt.prop.rhs)
            compl3 = any(Not(l) in lits3 for l in lits3)
            violations.append({'function': 'conversion proplogic.norm_full',
                               'clause': 'idempotent:complementary-members' if compl3 else 'idempotent',
                               'what': 'normal form %s is normalised further to %s' % (pt.prop.rhs, pt3.prop.rhs),
                               'term': repr(t)})

    # ---- traversal combinators with a rewrite rule, on terms with binders
    from kernel.term import Lambda
    f = K.Const('f', K.TFun(NatType, NatType))
    rules = [n2 for n2 in ('add_0_right', 'add_0_left', 'mult_1_right', 'times_def_1', 'add_comm') if theory.thy.has_theorem(n2)]
    for it in range(n):
        t = gen_nat(2)
        if rng.random() < 0.4:
            t = Lambda(x, t)
        for rname in rules[:3]:
            for cname, mk in (('top_conv', conv.top_conv), ('bottom_conv', conv.bottom_conv),
                              ('top_sweep_conv', conv.top_sweep_conv)):
                check_conv('%s(rewr %s)' % (cname, rname), mk(conv.try_conv(conv.rewr_conv(rname))), t)
    # ---- eta / beta conversion on abstractions whose body applies a function to the bound variable, with the
    # bound variable possibly occurring in the function part as well (then eta does not apply)
    g2 = Var('g', K.TFun(NatType, NatType, NatType))
    f = Var('f', K.TFun(NatType, NatType))
    for it in range(n):
        a = gen_nat(1)
        v = rng.choice([x, y])
        body = rng.choice([lambda: a + v, lambda: a * v, lambda: f(v), lambda: g2(a, v), lambda: g2(f(v), v),
                           lambda: g2(v, v), lambda: v + v, lambda: f(a + v)])()
        t = Lambda(v, body)
        if rng.random() < 0.3:
            t = f(t(rng.choice([x, y, Nat(1)]))) if rng.random() < 0.5 else Lambda(rng.choice([x, y, z]), t)
        for cname, cv in (('eta_conv', conv.eta_conv()), ('try eta_conv', conv.try_conv(conv.eta_conv())),
                          ('top_conv(try eta)', conv.top_conv(conv.try_conv(conv.eta_conv()))),
                          ('bottom_conv(try eta)', conv.bottom_conv(conv.try_conv(conv.eta_conv()))),
                          ('top_sweep_conv(eta)', conv.top_sweep_conv(conv.eta_conv())),
                          ('top_sweep_conv(beta)', conv.top_sweep_conv(conv.beta_conv())),
                          ('beta_norm_conv', conv.beta_norm_conv() if hasattr(conv, 'beta_norm_conv') else conv.all_conv())):
            check_conv(cname, cv, t)
    # ---- the real normaliser behind auto.auto_conv with and without supplied conditions, in both orders in one process:
    # hypotheses of the returned equation come only from the conditions supplied to THIS call
    try:
        from logic import auto, context as ctx_
        from syntax import parser as prs_
        basic.load_theory('realintegral')
        from data import real as real_mod_
        ctx_.set_context('realintegral', vars={'x': 'real', 'y': 'real'})
        auto.clear_cache()
        rterms = ["x ^ (1 / 2) * x ^ (1 / 2) + y", "(x ^ (1 / 2) * y) * x ^ (3 / 2)", "x * x ^ (1 / 2)", "x ^ (2::nat) * y + x * y",
                  "x ^ (1 / 2) * x ^ (1 / 2)", "y * (x + 1) - x * y"]
        for src_ in rterms:
            t_ = prs_.parse_term(src_)
            cond_ = ProofTerm.assume(prs_.parse_term("x > 0"))
            for order in ((True, False), (False, True), (False, False)):
                for with_cond in order:
                    evals += 1
                    try:
                        cv_ = auto.auto_conv([cond_]) if with_cond else auto.auto_conv()
                        pt_ = cv_.get_proof_term(t_)
                    except Exception:
                        continue
                    distinct.add(('auto_conv', src_, with_cond))
                    allowed = {cond_.prop} if with_cond else set()
                    if pt_.prop.lhs != t_:
                        violations.append({'function': 'conversion auto.auto_conv', 'clause': 'equation-about-t',
                                           'what': 'left side is %r' % pt_.prop.lhs, 'term': src_})
                    if not set(pt_.hyps) <= allowed:
                        violations.append({'function': 'conversion auto.auto_conv', 'clause': 'hypotheses-from-conditions',
                                           'what': 'equation for %s has hypotheses %s, supplied conditions: %s' % (
                                               src_, [repr(h) for h in pt_.hyps], [repr(h) for h in allowed]),
                                           'term': src_})
        # canonicity of auto.auto_conv on real polynomials (the 'auto' method decides equalities with it): the
        # rearrangements of the real family, incl. powers <-> products.  Powers with exponent >= 4 of a base that is
        # not a monomial are a recorded finding (left unexpanded), classified separately.
        def sum_pow_ge4(t):
            if t.is_comb('power', 2) and t.arg.is_number() and t.arg.dest_number() >= 4 and \
                    (t.arg1.is_plus() or t.arg1.is_minus() or has_power(t.arg1) or t.arg1.is_times()):
                return True
            return t.is_comb() and (sum_pow_ge4(t.fun) or sum_pow_ge4(t.arg))
        rpw = K.nat_power(RealType)
        pairs_ = []
        for base in (xr + yr, xr - yr, xr + Real(1), Real(2) * xr + yr, xr * yr + Real(1), xr * yr, Real(3) * xr):
            for e_ in (0, 1, 2, 3):
                spell = [rpw(base, Nat(e_))]
                prod_ = Real(1)
                for _ in range(e_):
                    prod_ = base if prod_ == Real(1) else prod_ * base
                spell.append(prod_)
                if e_ >= 1:
                    spell += [rpw(base, Nat(e_ - 1)) * base, base * rpw(base, Nat(e_ - 1))]
                pairs_ += [(spell[0], s_) for s_ in spell[1:]]
        pairs_ += [(None, None)] * (n // 2)
        for t, t2 in pairs_:
            if t is None:
                t = gen_real(rng.choice([1, 2, 3]))
                t2 = rearrange(t, RealType)
            evals += 1
            try:
                pt = auto.auto_conv().get_proof_term(t)
                pt2 = auto.auto_conv().get_proof_term(t2)
            except Exception:
                continue
            distinct.add(('auto_conv', repr(t)))
            if pt.prop.lhs != t or pt.hyps:
                violations.append({'function': 'conversion auto.auto_conv', 'clause': 'equation-about-t',
                                   'what': 'left side %s, hypotheses %s' % (pt.prop.lhs, [str(h) for h in pt.hyps]),
                                   'term': repr(t)})
            if pt.prop.rhs != pt2.prop.rhs:
                violations.append({'function': 'conversion auto.auto_conv',
                                   'clause': 'canonical:power-ge4-unexpanded' if sum_pow_ge4(t) or sum_pow_ge4(t2)
                                   else 'canonical',
                                   'what': 'equal polynomials get different normal forms %s / %s' % (pt.prop.rhs, pt2.prop.rhs),
                                   'term': repr(t), 'rearranged': repr(t2)})
        basic.load_theory('real')
    except Exception as e_:
        samples.append({'auto_conv_part': 'skipped: %s: %s' % (type(e_).__name__, str(e_)[:120])})
    # ---- the sum normaliser registered for real `+` called DIRECTLY (auto.auto_conv re-normalises until a fixed point and
    # hides a result that is not a normal form): sums of normalised monomials in which one monomial is cancelled; equal
    # polynomials get one normal form, a normal form is a fixed point, the equation is about the given term and checks
    try:
        from data import real as real_
        from kernel.term import Real as Real_
        basic.load_theory('real')
        rng_s = random.Random('%s/sum-normaliser' % seed)
        xs_ = [Var(n_, RealType) for n_ in 'xyz']
        cvs = real_.norm_add_polynomial()

        def direct(t):
            pt_ = cvs.get_proof_term(t)
            theory.check_proof(pt_.export())
            return pt_

        def mono(c_, v_):
            return v_ if c_ == 1 else Real_(c_) * v_
        for it in range(60 if tier == 'quick' else 600):
            k_ = rng_s.choice([2, 2, 3])
            vars_ = xs_[:k_]
            cs_ = [rng_s.choice([1, 1, 2, 3, -1]) for _ in vars_]
            base = None
            for c_, v_ in zip(cs_, vars_):
                base = mono(c_, v_) if base is None else base + mono(c_, v_)
            j_ = rng_s.randrange(k_)
            cancel = mono(-cs_[j_], vars_[j_]) if -cs_[j_] != 1 else vars_[j_]
            rest = None
            for i_, (c_, v_) in enumerate(zip(cs_, vars_)):
                if i_ != j_:
                    rest = mono(c_, v_) if rest is None else rest + mono(c_, v_)
            forms = [base + cancel, cancel + base]
            evals += 1
            try:
                pts_ = [direct(f_) for f_ in forms]
                want = direct(rest).prop.rhs if rest.is_plus() else rest
            except Exception:
                continue
            distinct.add(('norm_add_polynomial', repr(forms[0])))
            for f_, pt_ in zip(forms, pts_):
                if pt_.prop.lhs != f_ or pt_.hyps:
                    violations.append({'function': 'conversion real.norm_add_polynomial', 'clause': 'equation-about-t',
                                       'what': 'left side %s, hypotheses %s' % (pt_.prop.lhs, [str(h) for h in pt_.hyps]),
                                       'term': repr(f_)})
                if pt_.prop.rhs != want:
                    violations.append({'function': 'conversion real.norm_add_polynomial', 'clause': 'canonical',
                                       'what': 'sum-normaliser: %s normalises to %s, the equal polynomial %s to %s' % (
                                           f_, pt_.prop.rhs, rest, want), 'term': repr(f_)})
                if pt_.prop.rhs.is_plus():
                    try:
                        again = direct(pt_.prop.rhs).prop.rhs
                    except Exception:
                        continue
                    if again != pt_.prop.rhs:
                        violations.append({'function': 'conversion real.norm_add_polynomial', 'clause': 'idempotent',
                                           'what': 'sum-normaliser: %s -> %s -> %s' % (f_, pt_.prop.rhs, again), 'term': repr(f_)})
    except Exception as e_:
        samples.append({'sum_normaliser_part': 'skipped: %s: %s' % (type(e_).__name__, str(e_)[:120])})
    seen = set()
    uniq = []
    for v in violations:
        k = (v['function'], v['clause'], v['what'][:30])
        if k not in seen:
            seen.add(k)
            uniq.append(v)
    return {'name': 'c10_conv', 'rule': 'random polynomials over naturals / reals (depth <= 3, three variables, '
            'numerals, + * and real -), propositional formulas (depth <= 3, three atoms), terms with a binder for the '
            'traversal combinators, abstractions %v. F v with v possibly in F for eta / beta conversion; rearrangements '
            'by commutation, re-association, distribution, duplication, neutral and vanishing summands; '
            'non-trivial = distinct (conversion, term) on which the conversion returned', 'evaluations': evals,
            'distinct_nontrivial': len(distinct), 'samples': samples, 'violations': uniq[:12],
            'n_violations': len(uniq), 'all_violations': len(violations), 'secs': round(time.time() - t0, 1)}


if __name__ == '__main__':
    import json
    r = run(sys.argv[1] if len(sys.argv) > 1 else 'quick', int(sys.argv[2]) if len(sys.argv) > 2 else 0)
    print(json.dumps({k: v for k, v in r.items() if k != 'samples'}, indent=1, default=str)[:6000])
