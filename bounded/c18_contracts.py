"""C18: native evaluation of the side-car contracts of the veriT rule evaluations that are proved by pyvc.

Not a proof and not a search for defects of its own: a guard for the deductive part.
 (a) vacuity: for every rule under contract at least one accepted input satisfies the contract's `requires`
     (a contradictory pre-condition would make every obligation hold vacuously);
 (b) encoding: on every accepted input that satisfies `requires`, the `ensures` clause, evaluated natively with the
     spec functions of spec/veritspec.py on the REAL returned theorem, holds under EVERY valuation of the atoms
     (atomv is made a table look-up; all 2^k valuations of the k atoms are enumerated).  A clause that pyvc
     proved and that is false natively would show that the symbolic encoding is unsound.
Inputs: for each rule all argument lists of 1..3 terms from a pool of formulas over p, q, r (connectives nested
up to depth 2, equalities and conditionals at type bool and nat), premises: none or one pool formula under a
hypothesis.
"""
import ast
import contextlib
import io
import itertools
import os
import sys
import time

VERIF = os.path.dirname(os.path.dirname(os.path.abspath(__file__)))


def run(tier='quick', seed=0):
    t0 = time.time()
    REPO = os.environ.get('HOLPY_REPO', '/repo')
    for pth in (REPO, VERIF):
        if pth not in sys.path:
            sys.path.insert(0, pth)
    import smt
    if REPO + '/smt' not in smt.__path__:
        smt.__path__.insert(0, REPO + '/smt')
    cwd = os.getcwd()
    os.chdir(REPO)
    try:
        return _run(tier, seed, t0)
    finally:
        os.chdir(cwd)


def _atoms(t, out):
    """atoms of t as spec.veritspec.pv sees them"""
    from spec import veritspec as S
    if S.bin_c(t, 'conj') or S.bin_c(t, 'disj') or S.bin_c(t, 'implies') or S.bin_c(t, 'xor') or S.bool_eq_c(t):
        _atoms(t.fun.arg, out)
        _atoms(t.arg, out)
    elif S.un_c(t, 'neg'):
        _atoms(t.arg, out)
    elif S.bool_ite_c(t):
        _atoms(t.fun.fun.arg, out)
        _atoms(t.fun.arg, out)
        _atoms(t.arg, out)
    elif t.is_const() and t.name in ('true', 'false'):
        pass
    elif t not in out:
        out.append(t)


def _run(tier, seed, t0):
    from logic import basic
    import smt.veriT.verit_macro as vm
    basic.load_theory('verit')
    from kernel import theory
    from kernel.type import BoolType, NatType
    from kernel.term import Var, And, Or, Not, Implies, Eq, true, false
    from kernel.thm import Thm
    from logic import logic
    import plans
    from spec import veritspec as S
    import contracts.verit as C

    # contract classes by registered macro name
    src = open(os.path.join(VERIF, 'contracts', 'verit.py')).read()
    by_rule = {}
    for node in ast.parse(src).body:
        if isinstance(node, ast.ClassDef):
            for d in node.decorator_list:
                if isinstance(d, ast.Call) and getattr(d.func, 'id', None) == 'contract':
                    q = ast.literal_eval(d.args[0])
                    if '.macro__verit_' in q:
                        by_rule[q.split('.macro__verit_')[1].rsplit('.', 1)[0]] = getattr(C, node.name)

    p, q, r = Var('p', BoolType), Var('q', BoolType), Var('r', BoolType)
    m, n = Var('m', NatType), Var('n', NatType)
    base = [p, q, r]
    lvl1 = []
    for a, b in itertools.permutations(base, 2):
        lvl1 += [And(a, b), Or(a, b), Implies(a, b), Eq(a, b), logic.mk_xor(a, b)]
    lvl1 += [logic.mk_if(p, q, r), logic.mk_if(q, r, p), logic.mk_if(Not(p), q, r), logic.mk_if(p, Not(q), Not(r)), And(p, q, r), Or(p, q, r), Or(r, p, q), And(q, r, p),
             Eq(m, n), Eq(m, m), Not(Not(p)), true, false, Or(p, p, q), And(p, Or(q, r)), Or(And(p, q), r)]
    pool = base + lvl1
    pool = pool + [Not(t) for t in pool] + [Not(Not(Not(p))), Not(Not(Not(q)))]
    small = base + [Not(t) for t in base] + [Not(Not(p)), true, false, Not(false)]
    hyp = Var('h', BoolType)

    valuation = {}
    S.atomv = lambda t: valuation.get(t, False)

    def call(fn, *a):
        with contextlib.redirect_stdout(io.StringIO()):
            return fn(*a)

    stats = {}
    violations = []
    samples = []
    evals = 0
    rules = [x for x in plans.C18_RULES if x in by_rule]
    missing = [x for x in plans.C18_RULES if x not in by_rule]
    budget = 70 if tier == 'quick' else 400
    for rule in rules:
        con = by_rule[rule]
        mac = theory.global_macros['verit_' + rule]
        st = stats.setdefault(rule, {'accepted': 0, 'pre_true': 0, 'post_checked': 0})
        t_rule = time.time()
        uses_prem = 'prevs' in con.ensures.__code__.co_varnames[:con.ensures.__code__.co_argcount]
        # candidate argument lists: principal formula first, then small literals / components
        cands = []
        for phi in pool:
            comps = []
            _atoms(phi, comps)
            sub = [phi] + [t for t in (phi.args if phi.is_comb() else [])] + \
                  [t for t in (phi.arg.args if phi.is_not() and phi.arg.is_comb() else [])]
            lits = []
            for t in sub + comps:
                for u in (t, Not(t)):
                    if u not in lits:
                        lits.append(u)
            if uses_prem:
                for k in (1, 2):
                    for tail in itertools.permutations(lits[:12], k):
                        cands.append((list(tail), [Thm(phi, (hyp,))]))
                cands.append((list(phi.strip_disj()), [Thm(phi, (hyp,))]))
                cands.append(([], [Thm(phi, (hyp,))]))          # the empty clause as conclusion
            else:
                for k in (0, 1, 2):
                    for tail in itertools.permutations(lits[:12], k):
                        cands.append(([phi] + list(tail), None))
                if phi.is_not():
                    cands.append(([phi] + list(phi.arg.strip_disj()), None))
        for args, prevs in cands:
            if time.time() - t_rule > budget / max(1, len(rules)) * 3:
                break
            evals += 1
            try:
                th = call(mac.eval, tuple(args), prevs) if prevs is not None else call(mac.eval, tuple(args), None)
            except Exception:
                continue
            st['accepted'] += 1
            kw = {'args': list(args), 'prevs': prevs}
            if hasattr(con, 'requires'):
                rq = con.requires
                names = rq.__code__.co_varnames[:rq.__code__.co_argcount]
                try:
                    ok = bool(rq(*[kw[x] for x in names]))
                except Exception:
                    ok = False
                if not ok:
                    continue
            st['pre_true'] += 1
            atoms = []
            for t in list(args) + ([pv.prop for pv in prevs] if prevs else []) + [th.prop]:
                _atoms(t, atoms)
            if len(atoms) > 10:
                continue
            en = con.ensures
            names = en.__code__.co_varnames[:en.__code__.co_argcount]
            kw['result'] = th
            bad = None
            for bits in itertools.product([False, True], repeat=len(atoms)):
                valuation.clear()
                valuation.update(zip(atoms, bits))
                try:
                    okv = bool(en(*[kw[x] for x in names]))
                except Exception as e:
                    okv = True        # clause not evaluable natively on this input (partial access): skipped
                if not okv:
                    bad = dict((str(a), b) for a, b in zip(atoms, bits))
                    break
            st['post_checked'] += 1
            if bad is not None:
                violations.append({'function': 'smt.veriT.verit_macro.macro__verit_%s.eval' % rule,
                                   'clause': 'contract-native:ensures',
                                   'what': 'contract clause `ensures` false natively: args=%s prevs=%s result=%s '
                                           'valuation=%s' % ([str(a) for a in args],
                                                             [str(x) for x in prevs] if prevs else None, th, bad)})
            elif len(samples) < 8 and st['post_checked'] == 1:
                samples.append({'bounded': 'c18_contracts', 'case': {'rule': rule, 'args': [str(a) for a in args],
                                                                       'result': str(th)}})
    # ---- helper functions under contract: clauses evaluated natively on small inputs
    import kernel.term as KT
    hstats = {'strip_disj_n': 0, 'Or': 0, 'And': 0, 'strip_disj': 0, 'strip_conj': 0}

    def all_vals(terms, fn):
        atoms = []
        for t in terms:
            _atoms(t, atoms)
        for bits in itertools.product([False, True], repeat=min(len(atoms), 10)):
            valuation.clear()
            valuation.update(zip(atoms, bits))
            if not fn():
                return dict((str(a), b) for a, b in zip(atoms, bits))
        return None

    def hviol(fn, clause, what):
        violations.append({'function': fn, 'clause': 'contract-native:' + clause, 'what': what})

    for tm in pool:
        for k in range(0, 5):
            try:
                res = call(vm.strip_disj_n, tm, k)
            except Exception:
                continue
            hstats['strip_disj_n'] += 1
            evals += 1
            bad = all_vals([tm] + list(res), lambda: bool(C.strip_disj_n.ensures(tm, k, list(res))))
            if bad is not None:
                hviol('smt.veriT.verit_macro.strip_disj_n', 'ensures',
                      'strip_disj_n(%s, %d) returned %s: contract clause false natively under %s' % (
                          tm, k, [str(x) for x in res], bad))
        for fname, meth, spec in (('strip_disj', KT.Term.strip_disj, S.sd), ('strip_conj', KT.Term.strip_conj, S.sc)):
            res = list(meth(tm))
            hstats[fname] += 1
            evals += 1
            if res != list(spec(tm)):
                hviol('kernel.term.Term.' + fname, 'pure_result', '%s(%s) = %s differs from the spec %s' % (
                    fname, tm, [str(x) for x in res], [str(x) for x in spec(tm)]))
    for k in range(0, 4):
        for tup in itertools.product(small[:7], repeat=k):
            for fname, fn, con in (('Or', KT.Or, C.Or_), ('And', KT.And, C.And_)):
                res = fn(*tup)
                hstats[fname] += 1
                evals += 1
                ok1 = bool(con.ensures(list(tup), res))
                bad = all_vals(list(tup) + [res], lambda: bool(con.ensures_sem(list(tup), res)))
                if not ok1 or bad is not None:
                    hviol('kernel.term.' + fname, 'ensures', '%s%s = %s: contract clause false natively (%s)' % (
                        fname, tuple(str(x) for x in tup), res, bad))
    stats['_helpers'] = hstats
    vacuous = [x for x in rules if stats[x]['pre_true'] == 0]
    for x in vacuous:
        violations.append({'function': 'smt.veriT.verit_macro.macro__verit_%s.eval' % x,
                           'clause': 'contract-native:vacuity',
                           'what': 'no accepted input of the enumeration satisfies the contract\'s pre-condition '
                                   '(accepted %d): the proof may be vacuous' % stats[x]['accepted']})
    for x in missing:
        violations.append({'function': 'smt.veriT.verit_macro.macro__verit_%s.eval' % x,
                           'clause': 'contract-native:missing', 'what': 'rule listed in the plan has no contract class'})
    # at most three witnesses per function and clause
    seen_n = {}
    kept = []
    for v in violations:
        kk = (v['function'], v['clause'])
        seen_n[kk] = seen_n.get(kk, 0) + 1
        if seen_n[kk] <= 3:
            kept.append(v)
    n_all = len(violations)
    violations = kept
    return {'name': 'c18_contracts', 'witnesses_found': n_all,
            'rule': 'native evaluation of the contracts of %d proved rule evaluations: argument lists of 1-3 terms '
                    'from a pool of %d formulas over p, q, r (Boolean and nat equalities, conditionals, xor), '
                    'premise none / one pool formula under a hypothesis; ensures evaluated under all 2^k valuations '
                    'of the atoms' % (len(rules), len(pool)),
            'evaluations': evals, 'distinct_nontrivial': sum(s.get('post_checked', 0) for s in stats.values()) + sum(hstats.values()),
            'per_rule': stats, 'samples': samples, 'violations': violations, 'n_violations': len(violations),
            'secs': round(time.time() - t0, 1)}


if __name__ == '__main__':
    import json
    r = run(sys.argv[1] if len(sys.argv) > 1 else 'quick')
    vs = r.pop('violations')
    print(json.dumps(r, indent=1, default=str)[:6000])
    for v in vs[:20]:
        print(v['function'], '|', v['clause'], '|', v['what'][:300])
