"""Bounded stand-in for the program-level part of C20 (labelled bounded, never counted as proved).

Run-time contract on the REAL imperative.com.Com.compute_wp / get_vcs and imperative.parser2.cond_parser:
  (a) if every generated verification condition (read off the pre/post lists exactly as get_lines pairs
      them, plus P --> wp) holds in all states of a range, then every execution that starts in a state
      satisfying P, terminates within the fuel and stays inside that range ends in a state satisfying Q
      (own direct interpreter);
  (b) the printed form of every condition parses back to a condition with the same meaning in all states
      of the range.
Programs: skip / assignment / sequence / conditional / annotated loop over integer variables x, y, nesting
depth <= 3, conditions from a small assertion language."""
import os
import copy
import itertools
import random
import sys
import time


def ev(e, s):
    from imperative import expr as E
    if isinstance(e, E.Var):
        return s[e.name]
    if isinstance(e, E.Const):
        return e.val
    if isinstance(e, E.ITE):
        return ev(e.e1, s) if ev(e.cond, s) else ev(e.e2, s)
    if isinstance(e, E.Op):
        if len(e.args) == 1:
            a = ev(e.args[0], s)
            return -a if e.op == '-' else (not a)
        a, b = ev(e.args[0], s), ev(e.args[1], s)
        return {'+': lambda: a + b, '-': lambda: a - b, '*': lambda: a * b, '==': lambda: a == b,
                '!=': lambda: a != b, '<=': lambda: a <= b, '<': lambda: a < b, '>=': lambda: a >= b,
                '>': lambda: a > b, '&': lambda: a and b, '|': lambda: a or b, '-->': lambda: (not a) or b,
                '<-->': lambda: a == b}[e.op]()
    raise ValueError('ev: %r' % (e,))


class OutOfRange(Exception):
    pass


def execute(c, s, fuel, R):
    """Direct interpreter; returns the final state or None when the fuel runs out."""
    from imperative import com as C
    if isinstance(c, C.Skip):
        return s
    if isinstance(c, C.Assign):
        s = dict(s)
        s[c.v.name] = ev(c.e, s)
        if abs(s[c.v.name]) > R:
            raise OutOfRange()
        return s
    if isinstance(c, C.Seq):
        s1 = execute(c.c1, s, fuel, R)
        return None if s1 is None else execute(c.c2, s1, fuel, R)
    if isinstance(c, C.Cond):
        return execute(c.c1 if ev(c.b, s) else c.c2, s, fuel, R)
    if isinstance(c, C.While):
        n = 0
        while ev(c.b, s):
            n += 1
            if n > fuel:
                return None
            s = execute(c.c, s, fuel, R)
            if s is None:
                return None
        return s
    raise TypeError


def gen_arith(rng, d):
    from imperative import expr as E
    if d <= 0 or rng.random() < 0.45:
        return rng.choice([E.Var('x'), E.Var('y'), E.Const(0), E.Const(1), E.Const(2)])
    op = rng.choice(['+', '-', '-', '*'])
    return E.Op(op, gen_arith(rng, d - 1), gen_arith(rng, d - 1))


def gen_cond(rng, d):
    from imperative import expr as E
    if d <= 0 or rng.random() < 0.45:
        c = rng.random()
        if c < 0.1:
            return E.Const(True)
        return E.Op(rng.choice(['==', '!=', '<=', '<']), gen_arith(rng, 1), gen_arith(rng, 1))
    k = rng.random()
    if k < 0.2:
        return E.Op('~', gen_cond(rng, d - 1))
    return E.Op(rng.choice(['&', '|', '-->', '&']), gen_cond(rng, d - 1), gen_cond(rng, d - 1))


def gen_com(rng, d):
    from imperative import com as C, expr as E
    k = rng.random()
    if d <= 0 or k < 0.3:
        if rng.random() < 0.15:
            return C.Skip()
        return C.Assign(rng.choice(['x', 'y']), gen_arith(rng, 1))
    if k < 0.6:
        return C.Seq(gen_com(rng, d - 1), gen_com(rng, d - 1))
    if k < 0.8:
        return C.Cond(gen_cond(rng, 1), gen_com(rng, d - 1), gen_com(rng, d - 1))
    return C.While(gen_cond(rng, 1), gen_cond(rng, 1), gen_com(rng, d - 1))


def collect_vcs(c):
    """Verification conditions, paired as Com.get_lines.add_vc pairs them."""
    from imperative import com as C, expr as E
    out = []

    def add(ls):
        for i in range(len(ls) - 1):
            out.append(ls[i + 1] if ls[i] == E.true else E.implies(ls[i], ls[i + 1]))

    def rec(cmd):
        add(cmd.pre)
        if isinstance(cmd, C.Seq):
            rec(cmd.c1)
            rec(cmd.c2)
        elif isinstance(cmd, C.Cond):
            rec(cmd.c1)
            rec(cmd.c2)
        elif isinstance(cmd, C.While):
            rec(cmd.c)
            add(cmd.post)
    rec(c)
    return out


def show_com(c):
    from imperative import com as C
    if isinstance(c, C.Skip):
        return 'skip'
    if isinstance(c, C.Assign):
        return '%s := %s' % (c.v, c.e)
    if isinstance(c, C.Seq):
        return '%s; %s' % (show_com(c.c1), show_com(c.c2))
    if isinstance(c, C.Cond):
        return 'if (%s) then %s else %s' % (c.b, show_com(c.c1), show_com(c.c2))
    return 'while (%s) {[%s] %s}' % (c.b, c.inv, show_com(c.c))


def nested(e):
    """An operator (or if-then-else) occurs directly under an operator: the printed form depends on
    parenthesisation (the class of the recorded known finding about Op.__str__)."""
    from imperative import expr as E
    if isinstance(e, E.Op):
        return any(isinstance(a, (E.Op, E.ITE)) or nested(a) for a in e.args)
    if isinstance(e, E.ITE):
        return nested(e.cond) or nested(e.e1) or nested(e.e2)
    return False


BOOL_OPS = ('-->', '|', '&', '~')
ARITH_OPS = ('+', '-', '*')


def print_class(e):
    """Why the parenthesis-free text of e may legitimately fail to mean e (the recorded finding about Op.__str__),
    or None when the text of e is unambiguous for the grammar of cond_parser (then print/parse MUST agree):
    'bool-parens'  - a boolean operand needs parentheses under the priorities  --> (right assoc) < | < & < ~
    'arith-parens' - an arithmetic operand needs parentheses that Op.__str__ does not write."""
    from imperative import expr as E
    found = set()

    def top(a):
        if isinstance(a, E.Op) and a.op in BOOL_OPS and not (a.op == '-' and len(a.args) == 1):
            return a.op
        if isinstance(a, E.ITE):
            return 'ite'
        return 'atom'

    def walk(a, last=True):
        """last: nothing follows the text of a inside its parent (an if-then-else swallows what follows)"""
        if isinstance(a, E.ITE):
            if not last:
                found.add('bool-parens')
            walk(a.cond, False)
            walk(a.e1, False)
            walk(a.e2, last)
        elif isinstance(a, E.Op) and len(a.args) == 2 and a.op in ('-->', '|', '&'):
            l, r = a.args
            allowed_l = {'-->': ('|', '&', '~', 'atom'), '|': ('&', '~', 'atom'), '&': ('~', 'atom')}[a.op]
            allowed_r = {'-->': ('-->', '|', '&', '~', 'atom', 'ite'), '|': ('|', '&', '~', 'atom', 'ite'),
                         '&': ('&', '~', 'atom', 'ite')}[a.op]
            if top(l) not in allowed_l or top(r) not in allowed_r:
                found.add('bool-parens')
            walk(l, False)
            walk(r, last)
        elif isinstance(a, E.Op) and len(a.args) == 1 and a.op == '~':
            if top(a.args[0]) not in ('atom', 'ite'):
                found.add('bool-parens')
            walk(a.args[0], last)
        elif isinstance(a, E.Op):
            # comparison or arithmetic
            for k, b in enumerate(a.args):
                if a.op in ARITH_OPS and isinstance(b, E.Op) and b.op in ARITH_OPS:
                    written = a.op == '*' and len(b.args) == 2 and b.op in ('+', '-')
                    left_assoc_ok = k == 0 and len(a.args) == 2 and len(b.args) == 2 and (
                        (a.op in ('+', '-') and b.op in ('+', '-', '*')) or (a.op == '*' and b.op == '*'))
                    right_ok = k == 1 and len(b.args) == 2 and a.op == '+' and b.op == '*'
                    if not (written or left_assoc_ok or right_ok):
                        found.add('arith-parens')
                walk(b, last and k == len(a.args) - 1)
    walk(e)
    if 'bool-parens' in found:
        return 'bool-parens'
    if 'arith-parens' in found:
        return 'arith-parens'
    return None


def run(tier='quick', seed=0):
    t0 = time.time()
    if os.environ.get('HOLPY_REPO', '/repo') not in sys.path:
        sys.path.insert(0, os.environ.get('HOLPY_REPO', '/repo'))
    from logic import basic
    basic.load_theory('hoare')
    from imperative import expr as E, com as C
    from imperative.parser2 import cond_parser
    rng = random.Random(seed)
    R = 7
    states = [{'x': a, 'y': b} for a in range(-R, R + 1) for b in range(-R, R + 1)]
    init = [{'x': a, 'y': b} for a in range(-2, 3) for b in range(-2, 3)]
    violations = []
    evals = 0
    valid_programs = 0
    distinct = set()
    samples = []
    known_print = 0
    n = 1500 if tier == 'quick' else 25000
    for it in range(n):
        c = gen_com(rng, rng.choice([1, 2, 2, 3]))
        if rng.random() < 0.25:
            # an assignment followed by a conditional / loop whose guard reads the assigned variable
            v_ = rng.choice(['x', 'y'])
            guard = E.Op(rng.choice(['==', '<', '<=', '!=']), E.Var(v_), gen_arith(rng, 1))
            c = C.Seq(C.Assign(v_, gen_arith(rng, 1)), C.Cond(guard, gen_com(rng, 1), gen_com(rng, 1)))
            if rng.random() < 0.3:
                c = C.Seq(gen_com(rng, 1), c)
        P, Q = gen_cond(rng, 1), gen_cond(rng, 1)
        if rng.random() < 0.5:
            # precondition = the computed weakest precondition itself (its VC is trivially valid, so the triple is
            # decided by the run alone); loops keep their own VCs
            try:
                P = copy.deepcopy(c).compute_wp(Q)
            except Exception:
                pass
        text = '{%s} %s {%s}' % (P, show_com(c), Q)
        c2 = copy.deepcopy(c)
        try:
            wp = c2.compute_wp(Q)
        except Exception as e:
            evals += 1
            continue
        evals += 1
        vcs = collect_vcs(c2) + [E.implies(P, wp)]
        try:
            all_valid = all(ev(vc, s) for vc in vcs for s in states)
        except Exception:
            continue
        # (b) printed conditions mean what was computed
        for vc in vcs:
            try:
                back = cond_parser.parse(str(vc))
            except Exception as e:
                violations.append({'function': 'imperative.expr.Op.__str__',
                                   'clause': 'print-parse:' + (print_class(vc) or 'unambiguous-text'),
                                   'what': 'printed condition %r does not parse: %s' % (str(vc), str(e)[:80]),
                                   'program': text})
                continue
            try:
                diff = next((s for s in states if bool(ev(back, s)) != bool(ev(vc, s))), None)
            except Exception:
                diff = None
            if diff is not None:
                violations.append({'function': 'imperative.expr.Op.__str__',
                                   'clause': 'print-parse:' + (print_class(vc) or 'unambiguous-text'),
                                   'what': 'condition %r is printed as %r, which parses to a condition that differs '
                                           'at %s' % (repr(vc), str(vc), diff), 'program': text})
        # the strings handed out by get_vcs are the printed forms of exactly these conditions
        try:
            shown = c2.get_vcs({'x': 'int', 'y': 'int'})
            if shown != [str(vc) for vc in collect_vcs(c2)]:
                violations.append({'function': 'imperative.com.Com.get_vcs', 'clause': 'vcs-shown',
                                   'what': 'get_vcs returns %s, pre/post lists give %s' % (
                                       shown, [str(vc) for vc in collect_vcs(c2)]), 'program': text})
        except Exception:
            pass
        if not all_valid:
            continue
        valid_programs += 1
        distinct.add(text)
        # (a) soundness against execution
        for s0 in init:
            if not ev(P, s0):
                continue
            try:
                s1 = execute(c, s0, 12, R)
            except OutOfRange:
                continue
            if s1 is None:
                continue
            if not ev(Q, s1):
                violations.append({'function': 'imperative.com.Com.compute_wp', 'clause': 'vcs-valid=>triple',
                                   'what': 'all verification conditions hold on [-%d,%d]^2 but the run from %s ends in '
                                           '%s, which violates the postcondition' % (R, R, s0, s1),
                                   'program': text, 'vcs': [str(v) for v in vcs]})
                break
        if len(samples) < 4:
            samples.append({'program': text, 'vcs': [str(v) for v in vcs]})
    seen = {}
    uniq = []
    by_clause = {}
    for v in violations:
        by_clause[v['clause']] = by_clause.get(v['clause'], 0) + 1
        k = (v['function'], v['clause'])
        if seen.get(k, 0) < 3:          # at most three witnesses per (function, clause), every clause represented
            seen[k] = seen.get(k, 0) + 1
            uniq.append(v)
    return {'name': 'c20_programs', 'rule': 'random annotated while-programs (depth <= 3) over x, y with random pre/'
            'post-conditions; VCs checked on [-7,7]^2, runs from [-2,2]^2 with fuel 12 that stay in range; '
            'non-trivial = distinct programs all of whose VCs are valid', 'evaluations': evals,
            'distinct_nontrivial': len(distinct), 'valid_programs': valid_programs, 'samples': samples,
            'violations': uniq[:24], 'n_violations': len(uniq), 'violations_by_clause': by_clause, 'secs': round(time.time() - t0, 1)}


if __name__ == '__main__':
    import json
    r = run(sys.argv[1] if len(sys.argv) > 1 else 'quick', int(sys.argv[2]) if len(sys.argv) > 2 else 0)
    print(json.dumps({k: v for k, v in r.items() if k != 'samples'}, indent=1, default=str)[:5000])
