"""C11 bounded stand-in: items accepted as definitions are conservative, generated extensions are well-typed, and
items survive export / display round trips.

(a) every item of the loadable library theories (quick: logic_base, logic, set, nat, function, list; thorough: all
    theory files that load), re-parsed in the loaded theory: definition side conditions, extension typing,
    parse_item(export_json()) == item, parse_edit(get_display()) == item;
(b) generated adversarial definitions over theory nat: recursive right-hand sides, right-hand sides with extra free
    variables / extra type variables, repeated or non-variable arguments, polymorphic and overloaded names.
Nothing here is a proof.
"""
import json
import os
import random
import sys
import time


def run(tier='quick', seed=0):
    t0 = time.time()
    REPO = os.environ.get('HOLPY_REPO', '/repo')
    if REPO not in sys.path:
        sys.path.insert(0, REPO)
    cwd = os.getcwd()
    os.chdir(REPO)
    try:
        return _run(tier, seed, t0, REPO)
    finally:
        os.chdir(cwd)


def _run(tier, seed, t0, REPO):
    from logic import basic, context
    from kernel import theory, extension
    from kernel.type import TVar, STVar, TFun, BoolType, TypeMatchException
    from kernel.term import Term, Const, Var, TypeCheckException
    from server import items
    from syntax.settings import global_setting
    rng = random.Random(seed)
    violations = []
    samples = []
    distinct = set()
    stats = {'library_items': 0, 'library_items_with_error': 0, 'theories': 0, 'theories_not_loading': [],
             'generated_defs': 0, 'generated_accepted': 0, 'generated_rejected': 0}

    def consts_of(t):
        res = []
        def rec(u):
            if u.is_const():
                res.append(u)
            elif u.is_comb():
                rec(u.fun)
                rec(u.arg)
            elif u.is_abs():
                rec(u.body)
        rec(t)
        return res

    def tvars_of_type(T):
        return set(v.name for v in T.get_tvars()) | set(v.name for v in T.get_stvars())

    def tvars_of_term(t):
        res = set()
        def rec(u):
            if u.is_var() or u.is_const() or u.is_svar():
                res.update(tvars_of_type(u.T))
            elif u.is_comb():
                rec(u.fun)
                rec(u.arg)
            elif u.is_abs():
                res.update(tvars_of_type(u.var_T))
                rec(u.body)
        rec(t)
        return res

    def overlaps(T1, T2):
        """two types have a common instance (type variables of the two renamed apart)"""
        def gen(T, suffix):
            from kernel.type import TConst
            if T.is_tvar() or T.is_stvar():
                return STVar(T.name + suffix)
            return TConst(T.name, *[gen(a, suffix) for a in T.args])
        A, B = gen(T1, '_1'), gen(T2, '_2')
        sub = {}
        def walk(T):
            while T.is_stvar() and T.name in sub:
                T = sub[T.name]
            return T
        def occurs(n, T):
            T = walk(T)
            if T.is_stvar():
                return T.name == n
            return any(occurs(n, a) for a in T.args)
        def unify(X, Y):
            X, Y = walk(X), walk(Y)
            if X.is_stvar():
                if Y.is_stvar() and Y.name == X.name:
                    return True
                if occurs(X.name, Y):
                    return False
                sub[X.name] = Y
                return True
            if Y.is_stvar():
                return unify(Y, X)
            return X.name == Y.name and len(X.args) == len(Y.args) and all(unify(a, b) for a, b in zip(X.args, Y.args))
        return unify(A, B)

    def check_definition(item, origin):
        """side conditions of a conservative definition on an item that was ACCEPTED"""
        errs = []
        prop = item.prop
        if not isinstance(prop, Term) or not prop.is_equals():
            errs.append('defining proposition is not an equation')
            return errs
        f, args = prop.lhs.strip_comb()
        if not (f.is_const() and f.name == item.name):
            errs.append('head of the left side is not the new constant')
            return errs
        if not all(a.is_var() for a in args):
            errs.append('an argument on the left side is not a variable: %s' % [str(a) for a in args if not a.is_var()])
        elif len(set(a.name for a in args)) != len(args):
            errs.append('variables on the left side are not distinct')
        lhs_vars = set((a.name, a.T) for a in args if a.is_var())
        extra = [v for v in prop.rhs.get_vars() if (v.name, v.T) not in lhs_vars]
        if extra:
            errs.append('free variables on the right side that are not arguments: %s' % [str(v) for v in extra])
        if prop.rhs.get_svars():
            errs.append('schematic variables on the right side')
        extra_tv = tvars_of_term(prop.rhs) - tvars_of_type(f.T)
        if extra_tv:
            errs.append('type variables on the right side that are absent from the type of the constant: %s' %
                        sorted(extra_tv))
        for c in consts_of(prop.rhs):
            if c.name == item.name and overlaps(c.T, f.T):
                errs.append('the constant being defined occurs on the right side at the overlapping type %s' % c.T)
                break
        return errs

    def check_extension(item, origin, name, then=None):
        """extensions are well-typed over the signature extended by them (applied to a scratch copy of the theory)"""
        errs = []
        try:
            exts = item.get_extension()
        except Exception as e:
            return ['get_extension raises %s: %s' % (type(e).__name__, str(e)[:120])]
        import copy
        saved = theory.thy
        try:
            theory.thy = copy.copy(saved)
            for ext in exts:
                try:
                    if isinstance(ext, extension.Theorem):
                        T = ext.th.prop.checked_get_type()
                        if T != BoolType:
                            errs.append('theorem %s of the extension has type %s' % (ext.name, T))
                        for h in ext.th.hyps:
                            h.checked_get_type()
                        for c in consts_of(ext.th.prop):
                            try:
                                sig = theory.thy.get_term_sig(c.name, stvar=True)
                                sig.match(c.T)
                            except TypeMatchException:
                                errs.append('theorem %s uses constant %s at type %s, declared %s' % (
                                    ext.name, c.name, c.T, sig))
                            except theory.TheoryException:
                                errs.append('theorem %s uses undeclared constant %s' % (ext.name, c.name))
                    theory.thy.unchecked_extend([ext])
                except TypeCheckException as e:
                    errs.append('extension %s is not well-typed: %s' % (getattr(ext, 'name', ext), str(e)[:100]))
                except theory.TheoryException as e:
                    if origin == 'generated':
                        # the theory refuses the extension (e.g. an overloaded constant at a type with type
                        # variables): nothing is added, which is an acceptable end of an adversarial item
                        errs.append('REFUSED')
                        break
                    errs.append('extension %s rejected: %s' % (getattr(ext, 'name', ext), str(e)[:100]))
            else:
                # everything was added: a new instance of an overloaded constant must not overlap the others
                for ext in exts:
                    if isinstance(ext, extension.Constant) and saved.is_overload_const(ext.name):
                        if tvars_of_type(ext.T):
                            errs.append('instance %s :: %s of the overloaded constant was added although its type has '
                                        'type variables (overlaps the other instances)' % (ext.name, ext.T))
            if 'REFUSED' in errs:
                errs = []
            if then is not None and not errs:
                errs.extend(then())
        finally:
            theory.thy = saved
        return errs

    def check_roundtrips(item, data):
        """as server.monitor.check_theory does: export / display in the theory extended by the item, parse back in
        the theory before the item; proofs of theorems are not part of the edit form"""
        import copy
        errs = []
        saved = theory.thy
        try:
            theory.thy = copy.copy(saved)
            try:
                theory.thy.unchecked_extend(item.get_extension())
            except Exception:
                pass
            try:
                exported = json.loads(json.dumps(item.export_json()))
            except Exception as e:
                exported = None
                errs.append('export_json raises %s: %s' % (type(e).__name__, str(e)[:120]))
            try:
                with global_setting(highlight=False, unicode=True):
                    disp = item.get_display()
            except Exception as e:
                disp = None
                errs.append('get_display raises %s: %s' % (type(e).__name__, str(e)[:120]))
        finally:
            theory.thy = saved
        if exported is not None:
            try:
                back = items.parse_item(exported)
                if back.error is not None or not (back == item):
                    errs.append('parse_item(export_json()) differs from the item%s' % (
                        '' if back.error is None else ' (error: %s)' % str(back.error)[:100]))
            except Exception as e:
                errs.append('parse_item(export_json()) raises %s: %s' % (type(e).__name__, str(e)[:120]))
        if disp is not None:
            try:
                back = items.parse_edit(disp)
                if item.ty == 'thm':
                    back.proof, back.steps, back.num_gaps = item.proof, item.steps, item.num_gaps
                if back.error is not None or not (back == item):
                    errs.append('parse_edit(get_display()) differs from the item%s' % (
                        '' if back.error is None else ' (error: %s)' % str(back.error)[:100]))
            except Exception as e:
                errs.append('parse_edit(get_display()) raises %s: %s' % (type(e).__name__, str(e)[:120]))
        return errs

    def report(errs, clause, origin, data):
        for e in errs:
            violations.append({'function': 'server.items', 'clause': clause, 'what': e, 'origin': origin,
                               'item': {k: (v if isinstance(v, (str, int, list)) else str(v)) for k, v in data.items()
                                        if k in ('ty', 'name', 'type', 'prop', 'args', 'constrs', 'rules')}})

    # ---------------------------------------------------------------- (a) library items
    quick_thys = ['logic_base', 'logic', 'set', 'nat', 'function', 'list']
    if tier == 'quick':
        thys = quick_thys
    else:
        thys = sorted(f[:-5] for f in os.listdir(REPO + '/library') if f.endswith('.json'))
    for thy_name in thys:
        try:
            basic.load_theory(thy_name)
        except Exception as e:
            stats['theories_not_loading'].append(thy_name)
            continue
        stats['theories'] += 1
        try:
            with open(REPO + '/library/%s.json' % thy_name, encoding='utf-8') as f:
                content = json.load(f)['content']
        except Exception:
            continue
        if tier == 'quick' and len(content) > 120:
            content = rng.sample(content, 120)
        for data in content:
            if data.get('ty') not in items.item_table or data.get('ty') == 'header':
                continue
            try:
                # the theory as it is just before this item
                basic.load_theory(thy_name, limit=(data['ty'], data['name']))
            except Exception:
                continue
            context.set_context(None, vars={})
            try:
                item = items.parse_item(json.loads(json.dumps(data)))
            except Exception as e:
                violations.append({'function': 'server.items.parse_item', 'clause': 'parses',
                                   'what': 'parse_item raises %s: %s' % (type(e).__name__, str(e)[:120]),
                                   'origin': thy_name, 'item': {'ty': data.get('ty'), 'name': data.get('name')}})
                continue
            stats['library_items'] += 1
            origin = '%s.%s' % (thy_name, data.get('name'))
            distinct.add(origin)
            if item.error is not None:
                stats['library_items_with_error'] += 1
                continue
            if data['ty'] == 'def':
                report(check_definition(item, origin), 'definition-conservative', origin, data)
            if data['ty'] not in ('header',):
                report(check_extension(item, origin, data.get('name')), 'extension-typed', origin, data)
            report(check_roundtrips(item, data), 'roundtrip', origin, data)

    # ---------------------------------------------------------------- (b) adversarial definitions
    basic.load_theory('nat')
    context.set_context('nat', vars={})
    body_ok = ['x + y', 'x', '0', 'x * x + 1', 'if x = 0 then y else x']
    lhs_forms = [('d1 x y', "nat => nat => nat"), ('d1 x x', "nat => nat => nat"), ('d1 x 0', "nat => nat => nat"),
                 ('d1 (x + 1) y', "nat => nat => nat"), ('d1 x', "nat => nat"), ('d1', "nat"), ('d1 x y', "nat => nat => bool")]
    rhs_forms = ['x + y', 'x + z', 'x', '0', '?w', 'x + ?w', 'd1 x y + 1', 'd1 y x', '~(d1 x y)', 'x = y', 'card (UNIV::\'a set)',
                 '(!u::\'a. !v. u = v)', 'if x = 0 then 1 else d1 (x - 1) y', 'y + y', 'd1 x', 'd1',
                 'length ([]::\'b list)', '(?u::\'a. True)' if False else '(?u::\'a. u = u)']
    poly = [('p1 (u::\'a)', "'a => bool", '!v::\'a. v = u'), ('p1 (u::\'a)', "'a => bool", '!v::\'b. v = v'),
            ('p1', "bool", '!u::\'a. !v. u = v'), ('p1 (u::\'a)', "'a => 'a", 'u'),
            ('p1 (u::\'a) (w::\'a)', "'a => 'a => bool", 'u = w'), ('p1 (u::\'a) (u::\'a)', "'a => 'a => bool", 'u = u'),
            ('p1 (u::\'a)', "'a => bool", 'p1 u'), ('p1 (u::\'a)', "'a => bool", '~(p1 u)'),
            ('p1 (u::\'a)', "'a => bool", 'p1 (0::nat)'), ('p1 (u::nat)', "nat => bool", '~(p1 u)')]
    overloaded = [('plus (x::\'a) y', "'a => 'a => 'a", 'x'), ('zero', "'a", 'SOME u::\'a. u = u'),
                  ('plus (x::\'a list) y', "'a list => 'a list => 'a list", 'x'),
                  ('plus (x::bool) y', "bool => bool => bool", 'x | y'),
                  ('plus (x::bool) y', "bool => bool => bool", '~(plus x y)'),
                  ('plus (x::bool) y', "bool => bool => bool", '(plus (0::nat) 0 = 0) & x & y'),
                  ('zero', "bool", 'False' if False else '~(zero::bool)'), ('zero', "bool", 'true')]
    cases = []
    for lhs, T in lhs_forms:
        for rhs in rhs_forms:
            cases.append(('d1', T, '%s = (%s)' % (lhs, rhs)))
    for lhs, T, rhs in poly:
        cases.append(('p1', T, '%s = (%s)' % (lhs, rhs)))
    for lhs, T, rhs in overloaded:
        cases.append((lhs.split()[0], T, '%s = (%s)' % (lhs, rhs)))
    if tier == 'quick':
        cases = cases[:0] + rng.sample(cases[:len(lhs_forms) * len(rhs_forms)], 60) + cases[len(lhs_forms) * len(rhs_forms):]
    for name, T, prop in cases:
        data = {'ty': 'def', 'name': name, 'type': T, 'prop': prop}
        stats['generated_defs'] += 1
        try:
            item = items.parse_item(dict(data))
        except Exception as e:
            violations.append({'function': 'server.items.parse_item', 'clause': 'parses',
                               'what': 'parse_item raises %s: %s' % (type(e).__name__, str(e)[:120]),
                               'origin': 'generated', 'item': data})
            continue
        distinct.add(json.dumps(data))
        if item.error is not None:
            stats['generated_rejected'] += 1
            continue
        stats['generated_accepted'] += 1
        errs = check_definition(item, 'generated')
        report(errs, 'definition-conservative', 'generated', data)
        if not errs:
            # the round trips are made in the theory extended by the definition (the printer needs the constant)
            report(check_extension(item, 'generated', name), 'extension-typed', 'generated', data)
            report(check_roundtrips(item, data), 'roundtrip', 'generated', data)
            if len(samples) < 3:
                samples.append(data)
    # other item kinds: datatypes (uniform and NON-uniform recursion), recursive functions, inductive predicates:
    # every accepted item must generate well-typed extensions and survive the round trips
    basic.load_theory('list')
    context.set_context('list', vars={})
    other_items = [
        {'ty': 'type.ind', 'name': 'tree1', 'args': ['a'], 'constrs': [
            {'name': 'Leaf1', 'type': "'a tree1", 'args': []},
            {'name': 'Node1', 'type': "'a tree1 => 'a => 'a tree1 => 'a tree1", 'args': ['l', 'v', 'r']}]},
        {'ty': 'type.ind', 'name': 'nest1', 'args': ['a'], 'constrs': [
            {'name': 'NLeaf', 'type': "'a => 'a nest1", 'args': ['v']},
            {'name': 'NNode', 'type': "'a list nest1 => 'a nest1", 'args': ['n']}]},
        {'ty': 'type.ind', 'name': 'alt1', 'args': ['a', 'b'], 'constrs': [
            {'name': 'AltA', 'type': "'a => ('a, 'b) alt1", 'args': ['v']},
            {'name': 'AltB', 'type': "('b, 'a) alt1 => ('a, 'b) alt1", 'args': ['w']}]},
        {'ty': 'type.ind', 'name': 'box1', 'args': ['a'], 'constrs': [
            {'name': 'Box1', 'type': "'a => 'a box1", 'args': ['v']},
            {'name': 'NatBox1', 'type': "nat box1 => 'a box1", 'args': ['w']}]},
        {'ty': 'type.ind', 'name': 'unit1', 'args': [], 'constrs': [{'name': 'Unit1', 'type': 'unit1', 'args': []}]},
        {'ty': 'type.ind', 'name': 'act1', 'args': ['a'], 'constrs': [
            {'name': 'Skip1', 'type': "'a act1", 'args': []},
            {'name': 'Upd1', 'type': "('a => 'a) => 'a act1", 'args': ['f']},
            {'name': 'Seq1', 'type': "'a act1 => (nat => 'a act1) => 'a act1", 'args': ['c', 'k']}]},
        {'ty': 'type.ind', 'name': 'pair1', 'args': ['a', 'b'], 'constrs': [
            {'name': 'MkPair1', 'type': "'a => 'b => ('a, 'b) pair1", 'args': ['x', 'y']}]},
        {'ty': 'def.ind', 'name': 'dbl1', 'type': 'nat => nat', 'rules': [{'prop': 'dbl1 0 = 0'},
                                                                         {'prop': 'dbl1 (Suc n) = Suc (Suc (dbl1 n))'}]},
        {'ty': 'def.ind', 'name': 'len1', 'type': "'a list => nat", 'rules': [{'prop': 'len1 [] = 0'},
                                                                              {'prop': 'len1 (x # xs) = Suc (len1 xs)'}]},
        {'ty': 'def.pred', 'name': 'ev1', 'type': 'nat => bool', 'rules': [
            {'name': 'ev1_0', 'prop': 'ev1 0'}, {'name': 'ev1_SS', 'prop': 'ev1 n --> ev1 (Suc (Suc n))'}]},
        {'ty': 'def.ax', 'name': 'ax1', 'type': "'a => 'a => bool"},
        {'ty': 'type.ax', 'name': 'opaque1', 'args': ['a']},
    ]
    for data in other_items:
        stats['generated_defs'] += 1
        try:
            item = items.parse_item(json.loads(json.dumps(data)))
        except Exception as e:
            violations.append({'function': 'server.items.parse_item', 'clause': 'parses',
                               'what': 'parse_item raises %s: %s' % (type(e).__name__, str(e)[:120]),
                               'origin': 'generated', 'item': {'ty': data['ty'], 'name': data['name']}})
            continue
        distinct.add(json.dumps(data))
        if item.error is not None:
            stats['generated_rejected'] += 1
            continue
        stats['generated_accepted'] += 1
        report(check_extension(item, 'generated', data['name']), 'extension-typed', 'generated', data)
        report(check_roundtrips(item, data), 'roundtrip', 'generated', data)
    # inductive predicates over Booleans against their LEAST MODEL: the predicate is interpreted as the least fixed
    # point of its rules over {False, True}^k; every theorem of the generated extension (introduction rules, case
    # rule, induction rule) must be true in that model for every value of its free variables (incl. predicate
    # variables).  A rule variable that occurs only in premises, recursive premises, constants as arguments.
    import itertools
    from kernel.term import Term as _Term
    basic.load_theory('logic_base')
    context.set_context('logic_base', vars={})

    class _Skip(Exception):
        pass

    def dom(T):
        if T == BoolType:
            return [False, True]
        if T.is_fun():
            ds, rs = dom(T.domain_type()), dom(T.range_type())
            if len(rs) ** len(ds) > 300:
                raise _Skip
            return [tuple(zip(ds, vals)) for vals in itertools.product(rs, repeat=len(ds))]
        raise _Skip

    def evt(t, env, qname, qset, fresh=[0]):
        if t.is_var():
            if t.name not in env:
                raise _Skip
            return env[t.name]
        if t.is_const():
            if t.name == 'true':
                return True
            if t.name == 'false':
                return False
            raise _Skip
        if t.is_implies():
            return (not evt(t.arg1, env, qname, qset)) or evt(t.arg, env, qname, qset)
        if t.is_conj():
            return evt(t.arg1, env, qname, qset) and evt(t.arg, env, qname, qset)
        if t.is_disj():
            return evt(t.arg1, env, qname, qset) or evt(t.arg, env, qname, qset)
        if t.is_not():
            return not evt(t.arg, env, qname, qset)
        if t.is_equals():
            return evt(t.arg1, env, qname, qset) == evt(t.arg, env, qname, qset)
        if t.is_forall() or t.is_exists():
            fresh[0] += 1
            v = Var('_ev%d' % fresh[0], t.arg.var_T)
            body = t.arg.subst_bound(v)
            vals = []
            for val in dom(v.T):
                e2 = dict(env)
                e2[v.name] = val
                vals.append(evt(body, e2, qname, qset))
            return all(vals) if t.is_forall() else any(vals)
        if t.is_comb():
            hd, args = t.strip_comb()
            if hd.is_const() and hd.name == qname:
                return tuple(evt(a_, env, qname, qset) for a_ in args) in qset
            f_ = evt(hd, env, qname, qset)
            for a_ in args:
                f_ = dict(f_)[evt(a_, env, qname, qset)]
            return f_
        raise _Skip

    def lfp(rules_, arity):
        # rules_: (variables, [premises], conclusion args); a premise is a variable name or (args)
        cur = set()
        while True:
            nxt = set(cur)
            for vars_, prems, concl in rules_:
                for vals in itertools.product([False, True], repeat=len(vars_)):
                    e = dict(zip(vars_, vals))
                    def val(a_):
                        return e[a_] if a_ in e else (a_ == 'true')
                    if all((val(p_) if isinstance(p_, str) else tuple(val(a_) for a_ in p_) in cur) for p_ in prems):
                        nxt.add(tuple(val(a_) for a_ in concl))
            if nxt == cur:
                return cur
            cur = nxt

    def show_rule(prems, concl, qn):
        def one(p_):
            return p_ if isinstance(p_, str) else '%s %s' % (qn, ' '.join(p_))
        return ' --> '.join([one(p_) for p_ in prems] + [one(tuple(concl))])
    pred_cases = [
        (1, [(['m', 'n'], ['m'], ['n'])]),                                   # premise-only variable
        (1, [(['m'], [], ['m']), ]),
        (1, [([], [], ['true'])]),
        (1, [([], [], ['true']), (['m', 'n'], [('m',), 'n'], ['n'])]),
        (1, [(['m', 'k'], ['k', ('m',)], ['false'])]),
        (2, [(['m'], [], ['m', 'm'])]),
        (2, [(['m'], [], ['m', 'm']), (['m', 'n'], [('m', 'n')], ['n', 'm'])]),
        (2, [(['m', 'n', 'k'], ['k', ('m', 'n')], ['n', 'k']), ([], [], ['true', 'false'])]),
        (2, [(['m', 'n', 'k'], [('m', 'k'), ('k', 'n')], ['m', 'n']), (['m'], ['m'], ['m', 'false'])]),
        (1, [(['m', 'n', 'k'], ['m', 'n'], ['k']), (['m'], [('m',)], ['m'])]),
    ]
    for ci, (arity, rules_) in enumerate(pred_cases):
        qn = 'qb%d' % ci
        data = {'ty': 'def.pred', 'name': qn, 'type': ' => '.join(['bool'] * (arity + 1)),
                'rules': [{'name': '%s_r%d' % (qn, ri), 'prop': show_rule(pr_, co_, qn)}
                          for ri, (_, pr_, co_) in enumerate(rules_)]}
        stats['generated_defs'] += 1
        try:
            item = items.parse_item(json.loads(json.dumps(data)))
        except Exception as e:
            violations.append({'function': 'server.items.parse_item', 'clause': 'parses',
                               'what': 'parse_item raises %s: %s' % (type(e).__name__, str(e)[:120]),
                               'origin': 'generated', 'item': {'ty': data['ty'], 'name': data['name']}})
            continue
        distinct.add(json.dumps(data))
        if item.error is not None:
            stats['generated_rejected'] += 1
            continue
        stats['generated_accepted'] += 1
        report(check_extension(item, 'generated', qn), 'extension-typed', 'generated', data)
        qset = lfp(rules_, arity)
        try:
            exts_ = item.get_extension()
        except Exception:
            continue
        for ext in exts_:
            if not ext.is_theorem():
                continue
            prop_ = ext.th.prop
            fvs = sorted(prop_.get_vars(), key=lambda v_: v_.name)
            try:
                doms = [dom(v_.T) for v_ in fvs]
                bad_env = None
                for vals in itertools.product(*doms):
                    env = {v_.name: val_ for v_, val_ in zip(fvs, vals)}
                    if not evt(prop_, env, qn, qset):
                        bad_env = env
                        break
            except _Skip:
                stats['pred_model_skipped'] = stats.get('pred_model_skipped', 0) + 1
                continue
            stats['pred_model_checked'] = stats.get('pred_model_checked', 0) + 1
            if bad_env is not None:
                report(['theorem %s of the extension, %r, is false in the least model of the rules (%s = %s) at %s' % (
                    ext.name, prop_, qn, sorted(qset), {k_: str(v_)[:40] for k_, v_ in bad_env.items()})],
                    'extension-true-in-least-model', 'generated', data)
    basic.load_theory('logic_base')
    context.set_context('logic_base', vars={})
    seen = {}
    uniq = []
    by = {}
    for v in violations:
        k = (v['clause'], v['what'][:50])
        by[v['clause']] = by.get(v['clause'], 0) + 1
        if seen.get(k, 0) < 2:
            seen[k] = seen.get(k, 0) + 1
            uniq.append(v)
    return {'name': 'c11_items',
            'rule': 'items of %d library theories re-parsed in the loaded theory (definition side conditions, extension '
                    'typing on a scratch copy of the theory, both round trips); %d adversarial definitions over theory nat '
                    '(7 left sides x 16 right sides, 10 polymorphic, 5 overloaded); 11 generated datatypes (uniform and non-'
                    'uniform recursion), recursive functions, inductive predicates, axiomatic items' % (stats['theories'], len(cases)),
            'evaluations': stats['library_items'] + stats['generated_defs'], 'distinct_nontrivial': len(distinct),
            'stats': stats, 'samples': samples, 'violations': uniq[:40], 'n_violations': len(uniq),
            'violations_by_clause': by, 'secs': round(time.time() - t0, 1)}


if __name__ == '__main__':
    r = run(sys.argv[1] if len(sys.argv) > 1 else 'quick', int(sys.argv[2]) if len(sys.argv) > 2 else 0)
    vs = r.pop('violations')
    r.pop('samples')
    print(json.dumps(r, indent=1, default=str)[:2500])
    for v in vs:
        print(v['clause'], '|', v['what'][:200], '|', v['origin'], '|', json.dumps(v['item'], ensure_ascii=False)[:200])
