"""C04 bounded stand-in: for every macro application (rule, arguments, premises) for which the detailed expansion is
produced, the expansion is accepted by the checker at the default trust level and proves what the one-step
evaluation reports, with no additional hypotheses.

Inputs: (A) every macro line of the recorded library proofs (quick: logic_base, logic; thorough: + set, function,
list, a sample of nat), as recorded and mutated (premises permuted / dropped / duplicated, argument terms replaced by
other statements of the same proof, theorem names swapped); (B) every macro line of the states reached by the C13
editing sessions; (C) generated goals for the arithmetic / propositional normalisation macros that have their own
evaluation; (D) the veriT rule instances accepted in the C18 harness (expansion vs evaluation).
Nothing here is a proof.
"""
import copy
import json
import os
import random
import sys
import time


def run(tier='quick', seed=0):
    t0 = time.time()
    REPO = os.environ.get('HOLPY_REPO', '/repo')
    if REPO not in sys.path:
        sys.path.insert(0, REPO)
    if '/verif' not in sys.path:
        sys.path.insert(1, '/verif')
    cwd = os.getcwd()
    os.chdir(REPO)
    try:
        return _run(tier, seed, t0, REPO)
    finally:
        os.chdir(cwd)


def _run(tier, seed, t0, REPO):
    from logic import basic, context
    basic.load_theory('logic_base')
    from kernel import theory
    from kernel.macro import Macro
    from kernel.term import Term, Inst
    from kernel.thm import Thm
    from kernel.proof import Proof, ProofItem, ItemID
    from kernel.proofterm import ProofTerm
    from server import server
    rng = random.Random(seed)
    violations = []
    samples = []
    distinct = set()
    stats = {'evaluated': 0, 'no_eval': 0, 'no_expansion': 0, 'expanded_and_checked': 0, 'library_proofs': 0,
             'library_proofs_skipped': 0}
    per_rule = {}

    def check_single(rule, args, prev_ths, origin):
        """eval vs. checked expansion of one macro application"""
        try:
            macro = theory.get_macro(rule)
        except Exception:
            return
        if macro.level is None or not isinstance(macro.level, int) or macro.level == 0 or rule in ('auto', 'z3', 'sympy'):
            return          # level 0 = trusted oracle at the default level (C05 / C06); auto / z3 call external search
        key = (rule, repr(args)[:300], repr([str(t) for t in prev_ths])[:300])
        if key in distinct:
            return
        import signal

        class _TO(BaseException):
            pass

        def _alarm(*a):
            raise _TO()
        signal.signal(signal.SIGALRM, _alarm)
        signal.alarm(20)
        try:
            th_e = macro.eval(args, list(prev_ths))
        except _TO:
            stats['no_eval'] += 1
            return
        except Exception:
            stats['no_eval'] += 1
            return
        finally:
            signal.alarm(0)
        if not isinstance(th_e, Thm):
            return
        stats['evaluated'] += 1
        n = len(prev_ths)
        ids = [ItemID(i) for i in range(n)]
        try:
            exp = macro.expand(ItemID(n), args, list(zip(ids, prev_ths)))
        except NotImplementedError:
            stats['no_expansion'] += 1
            return
        except Exception:
            stats['no_expansion'] += 1
            return
        distinct.add(key)
        per_rule[rule] = per_rule.get(rule, 0) + 1
        prf = Proof()
        for i, th in enumerate(prev_ths):
            prf.add_item(i, 'sorry', th=th)
        item = ProofItem(n, 'subproof', th=th_e)
        item.subproof = exp
        prf.items.append(item)
        desc = {'rule': rule, 'arguments': str(args)[:300], 'premises': [str(t) for t in prev_ths], 'origin': origin,
                'evaluation': str(th_e)}
        try:
            theory.check_proof(prf, check_level=0)
        except Exception as e:
            violations.append(dict(desc, function='macro ' + rule,
                                   clause='expansion-checks:%s: %s' % (type(e).__name__, str(e).split('\n')[0][:24]),
                                   what='expansion produced but rejected by the checker / proves another sequent: %s: %s'
                                        % (type(e).__name__, str(e)[:200])))
            return
        stats['expanded_and_checked'] += 1
        last = exp.items[-1].th if exp.items else None
        if last is None or last.prop != th_e.prop or not set(last.hyps) <= set(th_e.hyps):
            violations.append(dict(desc, function='macro ' + rule, clause='same-sequent',
                                   what='expansion proves %s, evaluation reports %s' % (last, th_e)))
        elif len(samples) < 4:
            samples.append(desc)

    def walk(prf):
        for it in prf.items:
            yield it
            if it.subproof:
                yield from walk(it.subproof)

    part_deadline = [None]

    def harvest(state, origin, mutate=True):
        if part_deadline[0] is not None and time.time() > part_deadline[0]:
            stats['time_budget_hit'] = stats.get('time_budget_hit', 0) + 1
            return
        items = list(walk(state.prf))
        props = [it.th.prop for it in items if it.th is not None]
        names = [it.args for it in items if isinstance(it.args, str)] + \
                [it.args[0] for it in items if isinstance(it.args, tuple) and it.args and isinstance(it.args[0], str)]
        for it in items:
            if it.rule in ('sorry', 'subproof', 'assume', 'variable', '') or not theory.has_macro(it.rule) \
                    if hasattr(theory, 'has_macro') else it.rule not in theory.global_macros:
                continue
            try:
                prev_ths = [state.prf.find_item(p).th for p in it.prevs]
            except Exception:
                continue
            if any(t is None for t in prev_ths):
                continue
            check_single(it.rule, it.args, prev_ths, origin)
            if not mutate:
                continue
            # premises permuted / dropped / duplicated / replaced
            if len(prev_ths) >= 2:
                check_single(it.rule, it.args, list(reversed(prev_ths)), origin + ' (premises reversed)')
            if prev_ths:
                check_single(it.rule, it.args, prev_ths[:-1], origin + ' (last premise dropped)')
                check_single(it.rule, it.args, prev_ths[1:], origin + ' (first premise dropped)')
                check_single(it.rule, it.args, prev_ths + [prev_ths[0]], origin + ' (premise duplicated)')
                other = Thm(rng.choice(props), *prev_ths[0].hyps)
                check_single(it.rule, it.args, [other] + prev_ths[1:], origin + ' (premise replaced)')
                # one premise under an additional hypothesis: the evaluation must report it like the expansion
                j_ = rng.randrange(len(prev_ths))
                extra_h = rng.choice(props)
                with_h = list(prev_ths)
                with_h[j_] = Thm(prev_ths[j_].prop, *(list(prev_ths[j_].hyps) + [extra_h]))
                check_single(it.rule, it.args, with_h, origin + ' (premise %d under an extra hypothesis)' % j_)
            # arguments: another statement of the same proof / another theorem name
            a = it.args
            for _ in range(2):
                if isinstance(a, Term):
                    check_single(it.rule, rng.choice(props), prev_ths, origin + ' (argument replaced)')
                elif isinstance(a, str) and names:
                    check_single(it.rule, rng.choice(names), prev_ths, origin + ' (theorem name replaced)')
                elif isinstance(a, tuple) and len(a) == 2 and isinstance(a[0], str):
                    if isinstance(a[1], Term):
                        check_single(it.rule, (a[0], rng.choice(props)), prev_ths, origin + ' (argument replaced)')
                        if names:
                            check_single(it.rule, (rng.choice(names), a[1]), prev_ths, origin + ' (theorem name replaced)')
                    elif isinstance(a[1], Inst) and names:
                        check_single(it.rule, (rng.choice(names), a[1]), prev_ths, origin + ' (theorem name replaced)')

    # ---------------------------------------------------------------- (A) recorded library proofs
    thys = ['logic_base', 'logic'] if tier == 'quick' else ['logic_base', 'logic', 'function', 'list', 'set', 'nat']
    part_deadline[0] = time.time() + (120 if tier == 'quick' else 300)      # wall-clock budget of part (A)
    for thy_name in thys:
        if time.time() > part_deadline[0]:
            break
        with open(REPO + '/library/%s.json' % thy_name, encoding='utf-8') as f:
            content = json.load(f)['content']
        vals = [v for v in content if v.get('ty') == 'thm' and 'proof' in v]
        if thy_name in ('set', 'nat'):
            vals = rng.sample(vals, min(len(vals), 25))
        elif tier == 'quick' and len(vals) > 30:
            vals = rng.sample(vals, 30)
        for val in vals:
            try:
                basic.load_theory(thy_name, limit=('thm', val['name']))
                context.set_context(None, vars=val['vars'])
                state = server.parse_proof(copy.deepcopy(val['proof']))
            except Exception:
                stats['library_proofs_skipped'] += 1
                continue
            stats['library_proofs'] += 1
            harvest(state, '%s.%s' % (thy_name, val['name']))

    # ---------------------------------------------------------------- (B) states of the C13 editing sessions
    from bounded import c13_state

    def observer(state, h):
        if h['rng'].random() < 0.5:
            harvest(state, 'editing session on ' + h['goal'], mutate=h['rng'].random() < 0.3)
    part_deadline[0] = time.time() + (120 if tier == 'quick' else 200)      # wall-clock budget of part (B)
    c13_state.run('quick', seed + 2000, observer=observer, n_goals_override=(40 if tier == 'quick' else 200))
    part_deadline[0] = None

    # ---------------------------------------------------------------- (C) normalisation macros with an own evaluation
    basic.load_theory('real')
    from kernel import term as K
    from kernel.type import NatType, IntType, RealType, BoolType
    from kernel.term import Var, Eq, Not, And, Or, Implies, Nat, Int, Real
    xs = {T: [Var(n, T) for n in ('x', 'y', 'z')] for T in (NatType, IntType, RealType)}
    num = {NatType: Nat, IntType: Int, RealType: Real}

    def gen_poly(T, d):
        k = rng.random()
        if d <= 0 or k < 0.35:
            return rng.choice(xs[T] + [num[T](0), num[T](1), num[T](2), num[T](3)])
        if k < 0.65:
            return K.plus(T)(gen_poly(T, d - 1), gen_poly(T, d - 1))
        if k < 0.9 or T == NatType:
            return K.times(T)(gen_poly(T, d - 1), gen_poly(T, d - 1))
        return K.minus(T)(gen_poly(T, d - 1), gen_poly(T, d - 1))

    def rearr(t, T):
        if t.is_plus() or t.is_times():
            a, b = rearr(t.arg1, T), rearr(t.arg, T)
            op = K.plus(T) if t.is_plus() else K.times(T)
            if rng.random() < 0.5:
                a, b = b, a
            if t.is_times() and b.is_plus() and rng.random() < 0.5:
                return K.plus(T)(op(a, b.arg1), op(a, b.arg))
            return op(a, b)
        return t

    p_, q_, r_ = Var('p', BoolType), Var('q', BoolType), Var('r', BoolType)

    def gen_prop(d):
        k = rng.random()
        if d <= 0 or k < 0.3:
            return rng.choice([p_, q_, r_])
        if k < 0.5:
            return And(gen_prop(d - 1), gen_prop(d - 1))
        if k < 0.7:
            return Or(gen_prop(d - 1), gen_prop(d - 1))
        if k < 0.85:
            return Implies(gen_prop(d - 1), gen_prop(d - 1))
        return Not(gen_prop(d - 1))

    n_c = 150 if tier == 'quick' else 800
    for it in range(n_c):
        T = rng.choice([NatType, IntType, RealType])
        t = gen_poly(T, rng.choice([1, 2, 3]))
        t2 = rearr(t, T) if rng.random() < 0.7 else gen_poly(T, 2)
        rule = {NatType: 'nat_norm', IntType: 'int_norm', RealType: 'real_norm'}[T]
        check_single(rule, Eq(t, t2), [], 'generated')
        c1, c2 = num[T](rng.randint(0, 6)), num[T](rng.randint(0, 6))
        # the nat macros are offered goals at every numeric type (they must reject, or agree with their expansion)
        check_single('nat_const_ineq', Not(Eq(c1, c2)), [], 'generated')
        check_single('nat_const_less_eq', K.less_eq(T)(c1, c2), [], 'generated')
        check_single('nat_const_less', K.less(T)(c1, c2), [], 'generated')
        check_single('nat_norm', Eq(t, t2), [], 'generated')
        A, B = gen_prop(2), gen_prop(2)
        check_single('imp_conj', Implies(A, B), [], 'generated')
        check_single('imp_disj', Implies(A, B), [], 'generated')
        cs = [gen_prop(1) for _ in range(3)]
        check_single('imp_conj', Implies(And(*cs), And(*rng.sample(cs, 2))), [], 'generated')
        check_single('imp_disj', Implies(Or(*rng.sample(cs, 2)), Or(*cs)), [], 'generated')
        check_single('trivial', Implies(A, B, A), [], 'generated')
        check_single('trivial', Implies(A, B), [], 'generated')

    # ---------------------------------------------------------------- (E) library theorems applied with generated
    # instantiations: schematic predicates / functions instantiated by constant (vacuous) abstractions, by
    # abstractions that use their argument twice, or left open; 0..n premises supplied
    from kernel.type import TVar, STVar, TFun, TyInst
    from kernel.term import Lambda

    def inst_for(th, mode):
        inst = Inst()
        for stv in th.prop.get_stvars():
            inst.tyinst[stv.name] = TVar(stv.name)
        for v in th.prop.get_svars():
            T = v.T.subst(inst.tyinst)
            if T.is_fun() and mode in ('vacuous', 'diagonal', 'mixed'):
                argTs, resT = T.strip_type()
                bvs = [Var('bv%d_%s' % (i, v.name), A) for i, A in enumerate(argTs)]
                m_ = mode if mode != 'mixed' else rng.choice(['vacuous', 'diagonal', 'var'])
                if m_ == 'vacuous':
                    body = Var('c_' + v.name, resT)
                elif m_ == 'diagonal':
                    G = Var('G_' + v.name, TFun(*(argTs + argTs + [resT])))
                    body = G(*(bvs + bvs))
                else:
                    inst[v.name] = Var('V_' + v.name, T)
                    continue
                t = body
                for bv in reversed(bvs):
                    t = Lambda(bv, t)
                inst[v.name] = t
            else:
                inst[v.name] = Var('V_' + v.name, T)
        return inst

    e_thys = ['logic_base', 'logic', 'hoare'] if tier == 'quick' else ['logic_base', 'logic', 'set', 'function', 'hoare']
    for thy_name in e_thys:
        try:
            basic.load_theory(thy_name)
        except Exception:
            continue
        context.set_context(None, vars={})
        names = sorted(theory.thy.get_data('theorems').keys())
        # first the theorems with a schematic function AND at least two assumptions (matching order matters there)
        prio = []
        for nm_ in names:
            try:
                th_ = theory.get_theorem(nm_)
                if any(v.T.is_fun() for v in th_.prop.get_svars()) and len(th_.prop.strip_implies()[0]) >= 2:
                    prio.append(nm_)
            except Exception:
                pass
        cap1, cap2 = (60, 25) if tier == 'quick' else (300, 120)
        if len(prio) > cap1:
            prio = rng.sample(prio, cap1)
        rest = [n_ for n_ in names if n_ not in prio]
        names = prio + (rng.sample(rest, cap2) if len(rest) > cap2 else rest)
        for th_name in names:
            try:
                th = theory.get_theorem(th_name)
            except Exception:
                continue
            if not any(v.T.is_fun() for v in th.prop.get_svars()) and rng.random() < 0.6:
                continue
            for mode in ('vacuous', 'diagonal', 'mixed'):
                try:
                    inst = inst_for(th, mode)
                    As, C = th.prop.subst_norm(inst).strip_implies()
                except Exception:
                    continue
                fun_only = Inst()
                fun_only.tyinst = TyInst(**{k: v for k, v in inst.tyinst.items()}) if False else inst.tyinst
                for k_, v_ in inst.items():
                    if v_.get_type().is_fun():
                        fun_only[k_] = v_
                for k in range(0, min(len(As), 3) + 1):
                    prev_ths = [Thm(A) for A in As[:k]]
                    origin = '%s.%s with %s instantiation, %d premises' % (thy_name, th_name, mode, k)
                    check_single('apply_theorem', th_name, prev_ths, origin)
                    check_single('apply_theorem_for', (th_name, inst), prev_ths, origin)
                    check_single('apply_theorem_for', (th_name, fun_only), prev_ths, origin + ' (functions only)')
    # (E') first-order theorems applied to premises / instantiations that are NOT beta-normal (a redex `(%x. x) V` for
    # every schematic variable): evaluation and expansion must normalise - or not normalise - alike
    basic.load_theory('logic_base')
    context.set_context(None, vars={})
    rng_r = random.Random('%s/redex' % seed)
    fo_names = []
    for nm_ in sorted(theory.thy.get_data('theorems').keys()):
        try:
            th_ = theory.get_theorem(nm_)
            if th_.prop.get_svars() and not any(v.T.is_fun() for v in th_.prop.get_svars()):
                fo_names.append(nm_)
        except Exception:
            pass
    if len(fo_names) > (40 if tier == 'quick' else 200):
        fo_names = rng_r.sample(fo_names, 40 if tier == 'quick' else 200)
    for th_name in fo_names:
        try:
            th = theory.get_theorem(th_name)
            inst = Inst()
            for stv in th.prop.get_stvars():
                inst.tyinst[stv.name] = TVar(stv.name)
            for v in th.prop.get_svars():
                T = v.T.subst(inst.tyinst)
                bv = Var('bv_' + v.name, T)
                inst[v.name] = Lambda(bv, bv)(Var('V_' + v.name, T))
            As, C = th.prop.subst(inst).strip_implies()
        except Exception:
            continue
        for k in range(0, min(len(As), 3) + 1):
            prev_ths = [Thm(A) for A in As[:k]]
            origin = 'logic_base.%s with a beta-redex for every schematic variable, %d premises' % (th_name, k)
            check_single('apply_theorem', th_name, prev_ths, origin)
            check_single('apply_theorem_for', (th_name, inst), prev_ths, origin)
    basic.load_theory('logic_base')

    # ---------------------------------------------------------------- (D) veriT rules: expansion vs evaluation
    from bounded import c18_verit
    budget = [400 if tier == 'quick' else 1500]
    seen_rule = {}

    def on_accept(name, args, prevs, th, family):
        if budget[0] <= 0:
            return
        # spread the budget over the rules
        if seen_rule.get(name, 0) >= (12 if tier == 'quick' else 150):
            return
        if rng.random() < 0.3:
            seen_rule[name] = seen_rule.get(name, 0) + 1
            budget[0] -= 1
            check_single(name, args, list(prevs), 'veriT rule instance (%s)' % family)
    try:
        c18_verit.run('quick', seed + 3000, on_accept=on_accept)
    except Exception as e:
        stats['verit_part_crashed'] = '%s: %s' % (type(e).__name__, str(e)[:200])
    os.chdir(REPO)

    context.set_context('logic_base', vars={})
    seen = {}
    uniq = []
    by = {}
    for v in violations:
        k = (v['function'], v['clause'])
        by['%s:%s' % k] = by.get('%s:%s' % k, 0) + 1
        if seen.get(k, 0) < 2:
            seen[k] = seen.get(k, 0) + 1
            uniq.append(v)
    return {'name': 'c04_macros',
            'rule': 'macro lines of the recorded proofs of %s (with 8 kinds of mutation), macro lines of C13 editing '
                    'sessions, %d generated goals for nat/int/real_norm, nat_const_*, imp_conj, imp_disj, trivial; library theorems '
                    'of %s applied through apply_theorem(_for) with vacuous / diagonal / open instantiations of their schematic '
                    'functions and 0-3 premises; veriT rule instances accepted in the C18 harness (sampled per rule); for each '
                    'application with an evaluation AND an expansion: expansion checked at check_level 0 and compared '
                    'with the evaluation' % ('+'.join(thys), n_c, '+'.join(e_thys)),
            'evaluations': stats['evaluated'], 'distinct_nontrivial': len(distinct), 'stats': stats,
            'expanded_per_rule': dict(sorted(per_rule.items())), 'samples': samples, 'violations': uniq,
            'n_violations': len(uniq), 'violations_by_clause': by, 'secs': round(time.time() - t0, 1)}


if __name__ == '__main__':
    r = run(sys.argv[1] if len(sys.argv) > 1 else 'quick', int(sys.argv[2]) if len(sys.argv) > 2 else 0)
    vs = r.pop('violations')
    r.pop('samples')
    print(json.dumps(r, indent=1, default=str)[:3000])
    for v in vs:
        print(v['function'], '|', v['clause'], '|', v['what'][:300], '|', v['origin'], '| args', v['arguments'][:150], '| prems', v['premises'])
