"""C12 bounded stand-in: the theory produced by basic.load_theory(name, limit) does not depend on the history.

Every scenario runs in a fresh subprocess (the state under test is process-global).  Reference = the canonical dump
of theory.thy.data after loading (name, limit) first thing in a fresh process.  Histories: other theories loaded
before, holpy modules imported before (several load theories as an import side effect), the same theory loaded with
another limit before, a failing load before (unknown theory, missing limit), a load interrupted by an exception in
the k-th item and repeated, the same load twice.  In a scratch copy of the working tree: a theory file modified
between two loads is re-read; an import cycle is reported.  Nothing here is a proof.
"""
import hashlib
import json
import os
import random
import shutil
import subprocess
import sys
import tempfile
import time
from concurrent.futures import ThreadPoolExecutor

WORKER = r'''
import sys, json, hashlib, os
repo = sys.argv[1]
hist = json.loads(sys.argv[2])
sys.path.insert(0, repo)
os.chdir(repo)
out = {'events': []}
def dump():
    from kernel import theory
    d = theory.thy.data
    canon = {}
    for k in sorted(d):
        v = d[k]
        if isinstance(v, dict):
            canon[k] = {str(a): repr(b) for a, b in sorted(v.items(), key=lambda x: str(x[0]))}
        else:
            canon[k] = repr(v)
    s = json.dumps(canon, sort_keys=True)
    return hashlib.sha256(s.encode()).hexdigest()[:20], {k: (len(v) if isinstance(v, dict) else 1) for k, v in canon.items()}
for ev in hist:
    kind = ev[0]
    try:
        if kind == 'import':
            __import__(ev[1])
            out['events'].append(['import', ev[1], 'ok'])
        elif kind == 'load':
            from logic import basic
            lim = tuple(ev[2]) if isinstance(ev[2], list) else ev[2]
            basic.load_theory(ev[1], limit=lim)
            out['events'].append(['load', ev[1], 'ok'])
        elif kind == 'load_interrupted':
            from logic import basic
            from server import items
            real_parse = items.parse_item
            cnt = [0]
            def bad(data):
                cnt[0] += 1
                if cnt[0] == ev[2]:
                    raise RuntimeError('interrupted')
                return real_parse(data)
            items.parse_item = bad
            try:
                try:
                    basic.load_theory(ev[1])
                    out['events'].append(['load_interrupted', ev[1], 'not-interrupted'])
                except RuntimeError:
                    out['events'].append(['load_interrupted', ev[1], 'interrupted'])
            finally:
                items.parse_item = real_parse
        elif kind == 'touch':
            # rewrite a theory file with one item removed (modification between loads)
            p = os.path.join(repo, 'library', ev[1] + '.json')
            mtime_before = os.stat(p).st_mtime
            data = json.load(open(p, encoding='utf-8'))
            removed = None
            for i in reversed(range(len(data['content']))):
                if data['content'][i].get('ty') == 'thm':
                    removed = data['content'].pop(i)
                    break
            json.dump(data, open(p, 'w', encoding='utf-8'))
            st = os.stat(p)
            shift = ev[2] if len(ev) > 2 else 5
            # relative to the time stamp the file had when it was read (a negative shift = an older revision restored)
            base = max(st.st_mtime, mtime_before) if shift > 0 else mtime_before
            os.utime(p, (base + shift, base + shift))
            out['events'].append(['touch', ev[1], removed.get('name') if removed else None])
        elif kind == 'break_item':
            # make the statement of the named theorem unparsable (as while it is being edited)
            p = os.path.join(repo, 'library', ev[1] + '.json')
            data = json.load(open(p, encoding='utf-8'))
            for it in data['content']:
                if it.get('ty') == 'thm' and it.get('name') == ev[2]:
                    it['prop'] = '(((' + str(it['prop'])
            json.dump(data, open(p, 'w', encoding='utf-8'))
            st = os.stat(p)
            os.utime(p, (st.st_atime + 5, st.st_mtime + 5))
            out['events'].append(['break_item', ev[1], 'ok'])
        elif kind == 'has_theorem':
            from kernel import theory
            out['events'].append(['has_theorem', ev[1], bool(theory.thy.has_theorem(ev[1]))])
    except BaseException as e:
        out['events'].append([kind, ev[1], 'EXC %s: %s' % (type(e).__name__, str(e)[:150])])
try:
    out['digest'], out['sizes'] = dump()
except BaseException as e:
    out['digest'] = 'EXC %s' % type(e).__name__
print('RESULT ' + json.dumps(out))
'''


CONTENT = r"""
import sys, json, os
repo = sys.argv[1]
cases = json.loads(sys.argv[2])
sys.path.insert(0, repo)
os.chdir(repo)
from logic import basic
from kernel import theory
res = []
for name, lim in cases:
    try:
        basic.load_theory(name, limit=tuple(lim) if isinstance(lim, list) else lim)
        res.append(['ok', sorted(theory.thy.get_data('theorems').keys())])
    except BaseException as e:
        res.append(['EXC', type(e).__name__ + ': ' + str(e)[:100]])
print('RESULT ' + json.dumps(res))
"""


def _content(repo, cases, timeout=900):
    """theorem names present after each (theory, limit) load, all in ONE fresh process"""
    try:
        p = subprocess.run(['/venv/bin/python', '-c', CONTENT, repo, json.dumps(cases)], capture_output=True, text=True,
                           timeout=timeout)
    except subprocess.TimeoutExpired:
        return None
    for line in p.stdout.splitlines():
        if line.startswith('RESULT '):
            return json.loads(line[7:])
    return None


def _run_hist(repo, hist, timeout=600):
    try:
        p = subprocess.run(['/venv/bin/python', '-c', WORKER, repo, json.dumps(hist)], capture_output=True, text=True,
                           timeout=timeout)
    except subprocess.TimeoutExpired:
        return {'digest': 'TIMEOUT', 'events': []}
    for line in p.stdout.splitlines():
        if line.startswith('RESULT '):
            return json.loads(line[7:])
    return {'digest': 'CRASH', 'events': [], 'stderr': p.stderr[-400:]}


def run(tier='quick', seed=0):
    t0 = time.time()
    REPO = os.environ.get('HOLPY_REPO', '/repo')
    rng = random.Random(seed)
    violations = []
    samples = []
    targets = [('logic_base', None), ('logic', None), ('set', None), ('nat', None), ('function', None), ('gcd', None),
               ('nat', ['thm', 'add_comm']), ('logic', ['thm', 'conj_comm']), ('set', ['thm', 'subset_trans'])]
    if tier != 'quick':
        targets += [('list', None), ('int', None), ('real', None), ('hoare', None), ('expr', None), ('gcd', None),
                    ('realintegral', None), ('smt', None), ('interval_arith', None),
                    ('int', ['thm', 'int_add_comm']), ('list', ['thm', 'append_assoc'])]
    others = ['logic_base', 'set', 'nat', 'list', 'function', 'int', 'hoare', 'real']
    modules = ['data.integer', 'data.real', 'prover.omega', 'prover.simplex', 'imperative.imp', 'prover.z3wrapper',
               'data.expr']
    jobs = []       # (label, target, history)
    for name, lim in targets:
        ld = ['load', name, lim]
        jobs.append(('reference', (name, lim), [ld]))
        for _ in range(2 if tier == 'quick' else 5):
            prev = [['load', o, None] for o in rng.sample(others, rng.choice([1, 2]))]
            jobs.append(('other theories first', (name, lim), prev + [ld]))
        for _ in range(2 if tier == 'quick' else 4):
            ims = [['import', m] for m in rng.sample(modules, rng.choice([1, 2, 3]))]
            jobs.append(('modules imported first', (name, lim), ims + [ld]))
        jobs.append(('same load twice', (name, lim), [ld, ld]))
        jobs.append(('full load then this', (name, lim), [['load', name, None], ld]))
        jobs.append(('unknown theory first', (name, lim), [['load', 'no_such_theory_', None], ld]))
        jobs.append(('missing limit first', (name, lim), [['load', name, ['thm', 'no_such_theorem_']], ld]))
        jobs.append(('interrupted load first', (name, lim), [['load_interrupted', name, rng.choice([1, 3, 10])], ld]))
        jobs.append(('interrupted load of an import first', (name, lim),
                     [['load_interrupted', 'logic_base', rng.choice([2, 5])], ld]))
        if lim is None:
            jobs.append(('limited load first', (name, lim), [['load', name, 'start'], ld]))
    with ThreadPoolExecutor(max_workers=12) as ex:
        results = list(ex.map(lambda j: _run_hist(REPO, j[2]), jobs))
    ref = {}
    for (label, tgt, hist), res in zip(jobs, results):
        if label == 'reference':
            ref[json.dumps(tgt)] = res
    evals = 0
    distinct = set()
    for (label, tgt, hist), res in zip(jobs, results):
        evals += 1
        r0 = ref[json.dumps(tgt)]
        distinct.add(json.dumps(hist))
        if r0['digest'].startswith(('EXC', 'CRASH', 'TIMEOUT')) or \
                any(e[0] == 'load' and str(e[2]).startswith('EXC') for e in r0['events']):
            if label == 'reference':
                samples.append({'target': tgt, 'reference': 'does not load: %s' % r0.get('events')})
            elif res['events'] and res['events'][-1][2] == 'ok' and label not in ('interrupted load first',):
                violations.append({'function': 'logic.basic.load_theory', 'clause': 'history-independent',
                                   'what': 'theory %s does not load in a fresh process (%s) but loads after the history '
                                           '(%s)' % (tgt, [e[2] for e in r0['events']][-1:], label), 'history': hist})
            continue            # the target does not load in a fresh process: nothing else to compare
        last = res['events'][-1] if res['events'] else None
        if len(samples) < 3 and label != 'reference':
            samples.append({'target': tgt, 'history': label, 'digest_equal_to_fresh_load': res['digest'] == r0['digest'],
                            'sizes': res.get('sizes')})
        if last is None or last[2] != 'ok':
            violations.append({'function': 'logic.basic.load_theory', 'clause': 'loads-after-history',
                               'what': 'load of %s fails after the history (%s): %s' % (tgt, label, last),
                               'history': hist})
        elif res['digest'] != r0['digest']:
            violations.append({'function': 'logic.basic.load_theory', 'clause': 'history-independent',
                               'what': 'theory %s after the history (%s) differs from the fresh load: sizes %s vs %s' % (
                                   tgt, label, res.get('sizes'), r0.get('sizes')), 'history': hist})
        if label == 'missing limit first' and not str(res['events'][0][2]).startswith('EXC'):
            violations.append({'function': 'logic.basic.load_theory', 'clause': 'missing-limit-reported',
                               'what': 'load with a missing limit does not raise', 'history': hist})
        if label == 'unknown theory first' and not str(res['events'][0][2]).startswith('EXC'):
            violations.append({'function': 'logic.basic.load_theory', 'clause': 'unknown-theory-reported',
                               'what': 'load of an unknown theory does not raise', 'history': hist})
    # ---- content of limited loads against the theory files themselves: everything the full load of every direct
    # import has, the theory's own theorem items before the limit, none of its own theorem items from the limit on.
    # Limits: items whose (kind, name) key ALSO occurs in a transitive import (re-declared overloaded constants),
    # other own items, and an item that exists only in an import (must be reported as missing)
    def lib(n):
        with open(os.path.join(REPO, 'library', n + '.json'), encoding='utf-8') as f:
            return json.load(f)
    def trans_imports(n, acc=None):
        acc = [] if acc is None else acc
        for i in lib(n).get('imports', []):
            if i not in acc:
                trans_imports(i, acc)
                acc.append(i)
        return acc
    def key_of(it):
        return [it.get('ty'), it.get('name')]
    content_cases = []
    for name in (['int', 'real'] if tier == 'quick' else ['int', 'rat', 'real', 'list', 'set', 'nat']):
        try:
            own = lib(name)['content']
            imps = trans_imports(name)
        except Exception:
            continue
        imp_keys = set()
        for i in imps:
            imp_keys |= {json.dumps(key_of(it)) for it in lib(i)['content'] if it.get('name')}
        recurring = [k for k in (key_of(it) for it in own) if k[1] and json.dumps(k) in imp_keys]
        own_keys = {json.dumps(key_of(it)) for it in own}
        only_imp = [json.loads(k) for k in sorted(imp_keys - own_keys) if json.loads(k)[0] == 'thm']
        picks = rng.sample(recurring, min(len(recurring), 3 if tier == 'quick' else 8))
        thm_items = [key_of(it) for it in own if it.get('ty') == 'thm']
        picks += rng.sample(thm_items, min(len(thm_items), 2 if tier == 'quick' else 5))
        for k in picks:
            content_cases.append((name, k, 'own'))
        for k in only_imp[:1]:
            content_cases.append((name, k, 'import-only'))
    if content_cases:
        full_names = sorted({n for n, _, _ in content_cases} | {i for n, _, _ in content_cases
                                                                for i in lib(n).get('imports', [])})
        res = _content(REPO, [[n, None] for n in full_names] + [[n, k] for n, k, _ in content_cases])
        if res is not None:
            full = {n: (set(r[1]) if r[0] == 'ok' else None) for n, r in zip(full_names, res)}
            for (name, k, kind), r in zip(content_cases, res[len(full_names):]):
                evals += 1
                distinct.add(json.dumps(['content', name, k]))
                if kind == 'import-only':
                    if r[0] == 'ok':
                        violations.append({'function': 'logic.basic.load_theory', 'clause': 'missing-limit-reported',
                                           'what': 'limit %s names an item of an import of %s, not of %s itself: the '
                                                   'load returns a theory with %d theorems instead of an error' % (
                                                       k, name, name, len(r[1])), 'history': 'fresh process'})
                    continue
                if r[0] != 'ok' or full.get(name) is None:
                    continue
                got = set(r[1])
                for i in lib(name).get('imports', []):
                    if full.get(i) is not None and not full[i] <= got:
                        violations.append({'function': 'logic.basic.load_theory', 'clause': 'limit-content',
                                           'what': 'load_theory(%s, limit=%s) lacks %d theorems of its import %s (e.g. %s)'
                                                   % (name, k, len(full[i] - got), i, sorted(full[i] - got)[:3]),
                                           'history': 'fresh process'})
                        break
                own = lib(name)['content']
                pos = [j for j, it in enumerate(own) if key_of(it) == k][0]
                imp_all = set().union(*[full[i] for i in lib(name).get('imports', []) if full.get(i)]) \
                    if lib(name).get('imports') else set()
                before = [it['name'] for it in own[:pos] if it.get('ty') == 'thm' and it['name'] in full[name]]
                after = [it['name'] for it in own[pos:] if it.get('ty') == 'thm' and it['name'] not in imp_all
                         and it['name'] not in before]
                if [n for n in before if n not in got]:
                    violations.append({'function': 'logic.basic.load_theory', 'clause': 'limit-content',
                                       'what': 'load_theory(%s, limit=%s) lacks own theorems before the limit: %s' % (
                                           name, k, [n for n in before if n not in got][:3]), 'history': 'fresh process'})
                if [n for n in after if n in got]:
                    violations.append({'function': 'logic.basic.load_theory', 'clause': 'limit-content',
                                       'what': 'load_theory(%s, limit=%s) has own theorems from the limit on: %s' % (
                                           name, k, [n for n in after if n in got][:3]), 'history': 'fresh process'})
    # ---- scratch copy: modification between loads, import cycle
    scratch = tempfile.mkdtemp(prefix='holpy_c12_')
    try:
        for d in ('kernel', 'logic', 'data', 'syntax', 'server', 'util', 'prover', 'imperative', 'integral', 'library'):
            if os.path.isdir(os.path.join(REPO, d)):
                shutil.copytree(os.path.join(REPO, d), os.path.join(scratch, d),
                                ignore=shutil.ignore_patterns('__pycache__', 'examples'))
        if os.path.exists(os.path.join(REPO, '__init__.py')):
            shutil.copy(os.path.join(REPO, '__init__.py'), scratch)
        # the scratch copy itself must work, otherwise the scenarios below would pass vacuously
        probe = _run_hist(scratch, [['load', 'set', None]])
        if not probe['events'] or probe['events'][-1][2] != 'ok':
            raise RuntimeError('scratch copy of the working tree does not load theory set: %s' % probe)
        # (1) a changed file is re-read
        res = _run_hist(scratch, [['load', 'logic', None], ['touch', 'logic'], ['load', 'logic', None],
                                  ['has_theorem', '__REMOVED__']])
        evals += 1
        removed = [e for e in res['events'] if e[0] == 'touch']
        if removed and removed[0][2] and not str(removed[0][2]).startswith('EXC'):
            res2 = _run_hist(scratch, [['load', 'logic', None]])            # fresh process, modified file
            res3 = _run_hist(scratch, [['load', 'logic', None], ['has_theorem', removed[0][2]]])
            # replay in one process: load, modify, load
            shutil.rmtree(os.path.join(scratch, 'library'))
            shutil.copytree(os.path.join(REPO, 'library'), os.path.join(scratch, 'library'))
            res4 = _run_hist(scratch, [['load', 'logic', None], ['touch', 'logic'], ['load', 'logic', None]])
            evals += 3
            if res4['digest'] != res2['digest']:
                violations.append({'function': 'logic.basic.load_theory_cache', 'clause': 'changed-file-reread',
                                   'what': 'after removing theorem %s from logic.json between two loads, the second load '
                                           'differs from a fresh load of the modified file (sizes %s vs %s)' % (
                                               removed[0][2], res4.get('sizes'), res2.get('sizes')),
                                   'history': 'load logic; modify logic.json; load logic'})
        # (1a') the file is replaced by content with an EARLIER modification time (an older revision restored)
        shutil.rmtree(os.path.join(scratch, 'library'))
        shutil.copytree(os.path.join(REPO, 'library'), os.path.join(scratch, 'library'))
        warm_b = _run_hist(scratch, [['load', 'logic', None], ['touch', 'logic', -3600], ['load', 'logic', None]])
        fresh_b = _run_hist(scratch, [['load', 'logic', None]])
        evals += 2
        if not str(fresh_b['digest']).startswith(('EXC', 'CRASH', 'TIMEOUT')) and warm_b['digest'] != fresh_b['digest']:
            violations.append({'function': 'logic.basic.load_theory_cache', 'clause': 'changed-file-reread',
                               'what': 'logic.json replaced by other content with an earlier time stamp between two loads: '
                                       'the second load differs from a fresh load (sizes %s vs %s)' % (
                                           warm_b.get('sizes'), fresh_b.get('sizes')),
                               'history': 'load logic; replace logic.json (mtime - 1 h); load logic'})
        # (1b) a changed IMPORT is re-read: load set (imports logic), modify logic.json, load set again
        shutil.rmtree(os.path.join(scratch, 'library'))
        shutil.copytree(os.path.join(REPO, 'library'), os.path.join(scratch, 'library'))
        warm = _run_hist(scratch, [['load', 'set', None], ['touch', 'logic'], ['load', 'set', None]])
        fresh = _run_hist(scratch, [['load', 'set', None]])          # fresh process, file already modified
        evals += 2
        if not str(fresh['digest']).startswith(('EXC', 'CRASH', 'TIMEOUT')) and warm['digest'] != fresh['digest']:
            violations.append({'function': 'logic.basic.load_theory', 'clause': 'changed-import-reread',
                               'what': 'load set; remove a theorem from logic.json; load set again: differs from a fresh '
                                       'load of set over the modified logic.json (sizes %s vs %s)' % (
                                           warm.get('sizes'), fresh.get('sizes')),
                               'history': 'load set; modify logic.json; load set'})
        # (1c) a limit that names an item whose statement does not parse: the theory before that item
        shutil.rmtree(os.path.join(scratch, 'library'))
        shutil.copytree(os.path.join(REPO, 'library'), os.path.join(scratch, 'library'))
        ref_l = _run_hist(scratch, [['load', 'nat', ['thm', 'add_comm']]])
        cold = _run_hist(scratch, [['break_item', 'nat', 'add_comm'], ['load', 'nat', ['thm', 'add_comm']]])
        shutil.rmtree(os.path.join(scratch, 'library'))
        shutil.copytree(os.path.join(REPO, 'library'), os.path.join(scratch, 'library'))
        warm_l = _run_hist(scratch, [['load', 'nat', None], ['break_item', 'nat', 'add_comm'],
                                     ['load', 'nat', ['thm', 'add_comm']]])
        evals += 3
        if not str(ref_l['digest']).startswith(('EXC', 'CRASH', 'TIMEOUT')):
            for lab, r_ in (('fresh process', cold), ('after a full load', warm_l)):
                last = r_['events'][-1] if r_['events'] else None
                if last is None or last[2] != 'ok' or r_['digest'] != ref_l['digest']:
                    violations.append({'function': 'logic.basic.load_theory', 'clause': 'limit-at-erroneous-item',
                                       'what': 'limit (thm, add_comm) whose statement no longer parses (%s): %s, sizes %s vs '
                                               '%s' % (lab, last, r_.get('sizes'), ref_l.get('sizes')),
                                       'history': 'break nat.add_comm; load nat with limit add_comm'})
        # (2) an import cycle is reported
        shutil.rmtree(os.path.join(scratch, 'library'))
        shutil.copytree(os.path.join(REPO, 'library'), os.path.join(scratch, 'library'))
        p = os.path.join(scratch, 'library', 'logic_base.json')
        data = json.load(open(p, encoding='utf-8'))
        data['imports'] = list(data.get('imports', [])) + ['set']
        json.dump(data, open(p, 'w', encoding='utf-8'))
        res = _run_hist(scratch, [['load', 'set', None]], timeout=120)
        evals += 1
        ev = res['events'][-1] if res['events'] else ['load', 'set', res['digest']]
        if not str(ev[2]).startswith('EXC') or 'RecursionError' in str(ev[2]):
            violations.append({'function': 'logic.basic.check_topological_sort', 'clause': 'cycle-reported',
                               'what': 'with logic_base importing set (cycle), load_theory(set) gives: %s / %s' % (
                                   ev[2], res['digest']), 'history': 'logic_base.json imports set'})
    finally:
        shutil.rmtree(scratch, ignore_errors=True)
    seen = {}
    uniq = []
    for v in violations:
        k = (v['clause'], v['what'][:60])
        if seen.get(k, 0) < 1:
            seen[k] = 1
            uniq.append(v)
    return {'name': 'c12_loading',
            'rule': '%d (theory, limit) targets x 11 kinds of history, each in a fresh subprocess, compared with the fresh '
                    'load by a digest of theory.thy.data; content of limited loads (limits at re-declared keys, own theorems, import-only '
                    'items) against the theory files; file modification and import cycle in a scratch copy of the tree'
                    % len(targets),
            'evaluations': evals, 'distinct_nontrivial': len(distinct), 'samples': samples[:4],
            'targets_not_loading_fresh': [json.loads(k) for k, r in ref.items()
                                          if any(e[0] == 'load' and str(e[2]).startswith('EXC') for e in r['events'])],
            'violations': uniq[:20], 'n_violations': len(uniq), 'secs': round(time.time() - t0, 1)}


if __name__ == '__main__':
    r = run(sys.argv[1] if len(sys.argv) > 1 else 'quick', int(sys.argv[2]) if len(sys.argv) > 2 else 0)
    vs = r.pop('violations')
    print(json.dumps(r, indent=1, default=str)[:2500])
    for v in vs:
        print(v['clause'], '|', v['what'][:300], '|', json.dumps(v['history'])[:200])
