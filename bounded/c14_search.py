"""C14 bounded stand-in: every suggestion of ProofState.search_method can be applied and does what it advertises.

States: those reached by the editing sessions of bounded/c13_state.py (generated goals with random / directed steps,
recorded library steps).  At each reached state a goal line and 0-2 visible fact lines are chosen, search_method is
called, and every returned suggestion is applied to a copy after supplying the parameters its method declares and
the suggestion leaves open (fresh names, a variable of the right type).  Nothing here is a proof.
"""
import copy
import os
import sys
import time


def run(tier='quick', seed=0):
    t0 = time.time()
    REPO = os.environ.get('HOLPY_REPO', '/repo')
    if REPO not in sys.path:
        sys.path.insert(0, REPO)
    if '/verif' not in sys.path:
        sys.path.insert(1, '/verif')
    from bounded import c13_state
    violations = []
    samples = []
    stats = {'states': 0, 'searches': 0, 'suggestions': 0, 'applied': 0, 'asked_parameters': 0, 'solving': 0}
    distinct = set()
    box = {}

    def observer(state, h):
        from kernel import theory
        from server import method
        rng = h['rng']
        stats['states'] += 1
        gaps = h['sorry_ids'](state.prf)
        if not gaps:
            return
        for _ in range(2):
            gid = rng.choice(gaps)
            facts = h['usable_facts'](state, gid)
            nf = rng.choice([0, 0, 1, 1, 2])
            fs = rng.sample(facts, min(nf, len(facts)))
            try:
                res = c13_state.limited(lambda: state.search_method(str(gid), [str(f) for f in fs]))
            except (Exception, c13_state.StepTimeout) as e:
                # a search that raises returns no suggestion: outside the property (which speaks about the suggestions
                # that ARE returned); counted, not reported
                stats['search_raised'] = stats.get('search_raised', 0) + 1
                continue
            stats['searches'] += 1
            if len(res) > 8:
                res = rng.sample(res, 8)
            for r in res:
                stats['suggestions'] += 1
                step = {k: v for k, v in r.items() if not k.startswith('_') and k != 'display'}
                step = h['fill_params'](state, step, gid)
                if step is None:
                    continue            # no parameter of the required type is available in this context
                adv_goal = r.get('_goal')
                adv_fact = r.get('_fact')
                key = (h['goal'], len(h['trace']), str(gid), tuple(str(f) for f in fs), step.get('method_name'),
                       step.get('theorem'))
                distinct.add(key)
                st = copy.copy(state)
                before_gaps = [state.get_proof_item(g).th.prop for g in gaps]
                before_lines = [it.th.prop for it in h['all_items'](state.prf) if it.th is not None and it.rule != 'sorry']
                try:
                    c13_state.limited(lambda: (method.apply_method(st, step), st.check_proof(compute_only=True)))
                except c13_state.StepTimeout:
                    stats['timeouts'] = stats.get('timeouts', 0) + 1
                    continue
                except theory.ParameterQueryException:
                    stats['asked_parameters'] += 1
                    continue
                except Exception as e:
                    if os.environ.get('C14_DEBUG'):
                        import traceback
                        traceback.print_exc()
                        print(state.prf)
                    violations.append({'function': 'server.method.' + str(step.get('method_name')), 'clause': 'applies',
                                       'what': 'suggestion %s fails outright: %s: %s' % (
                                           {k: str(v) for k, v in step.items()}, type(e).__name__, str(e)[:160]),
                                       'goal': h['goal'], 'steps': h['trace']})
                    continue
                stats['applied'] += 1
                after_gaps = [st.get_proof_item(g).th.prop for g in h['sorry_ids'](st.prf)]
                # gaps that were there before, minus the one worked on
                rest = list(before_gaps)
                cur = state.get_proof_item(gid).th.prop
                if cur in rest:
                    rest.remove(cur)
                new_gaps = list(after_gaps)
                for t in rest:
                    if t in new_gaps:
                        new_gaps.remove(t)
                if adv_goal is not None:
                    if len(adv_goal) == 0:
                        stats['solving'] += 1
                    extra = [t for t in new_gaps if t not in adv_goal]
                    if extra:
                        violations.append({'function': 'server.method.' + str(step.get('method_name')),
                                           'clause': 'goals-advertised',
                                           'what': 'suggestion %s advertised goals %s but leaves %s open' % (
                                               {k: str(v) for k, v in step.items()}, [str(t) for t in adv_goal],
                                               [str(t) for t in extra]),
                                           'goal': h['goal'], 'steps': h['trace']})
                if adv_fact:
                    after_lines = [it.th.prop for it in h['all_items'](st.prf) if it.th is not None and it.rule != 'sorry']
                    for t in adv_fact:
                        if after_lines.count(t) <= before_lines.count(t):
                            violations.append({'function': 'server.method.' + str(step.get('method_name')),
                                               'clause': 'fact-advertised',
                                               'what': 'suggestion %s advertised the new fact %s, which is not a new proved '
                                                       'line' % ({k: str(v) for k, v in step.items()}, t),
                                               'goal': h['goal'], 'steps': h['trace']})
                if len(samples) < 4:
                    samples.append({'goal': h['goal'], 'suggestion': {k: str(v) for k, v in step.items()},
                                    'advertised_goals': None if adv_goal is None else [str(t) for t in adv_goal]})

    r13 = c13_state.run(tier, seed + 1000, observer=observer, n_goals_override=(90 if tier == 'quick' else 500))

    # ---- states in theory nat (rewrite rules with a symmetric hint, arithmetic facts), and initial states of library
    # theorems in the theory cut off just before the theorem (methods and their macros may become available at
    # different points of a theory file)
    import json as _json
    import random as _random
    from logic import basic, context
    from server import server
    from kernel.proof import ItemID
    rng2 = _random.Random(seed + 7)

    def all_items(prf):
        for it in prf.items:
            yield it
            if it.subproof:
                yield from all_items(it.subproof)

    def sorry_ids(prf):
        return [it.id for it in all_items(prf) if it.rule == 'sorry']

    def usable_facts(state, gid):
        res = []
        for it in all_items(state.prf):
            try:
                if it.th is not None and gid.can_depend_on(it.id):
                    res.append(it.id)
            except Exception:
                pass
        return res

    def fill_none(state, step, gid):
        from server import method as _m
        m_ = _m.global_methods[step['method_name']]
        for sig in m_.sig:
            if sig not in step:
                if sig == 'names':
                    step['names'] = 'fresh_v1'
                else:
                    return None
        return step

    def visit(state, label):
        h = {'rng': rng2, 'sorry_ids': sorry_ids, 'usable_facts': usable_facts, 'fill_params': fill_none,
             'all_items': all_items, 'goal': label, 'trace': [], 'ctx_vars': {}}
        for _ in range(3):
            observer(state, h)

    try:
        basic.load_theory('nat')
        nat_goals = ["odd n --> Suc x = y --> x * y + x * z = 0 --> false",
                     "even n --> x + 1 = y --> n * (x + y) = z --> z = 0",
                     "x * 2 = y --> ~(even y) --> false", "x + 0 = y --> y * 1 = z --> z = x"]
        for gsrc in nat_goals:
            context.set_context('nat', vars={'n': 'nat', 'x': 'nat', 'y': 'nat', 'z': 'nat'})
            st = server.parse_init_state(gsrc)
            visit(st, 'nat: ' + gsrc)
        with open(REPO + '/library/nat.json', encoding='utf-8') as f_:
            content = _json.load(f_)['content']
        thms = [v for v in content if v.get('ty') == 'thm'][: (70 if tier == 'quick' else 400)]
        if tier == 'quick':
            thms = thms[::2]
        for val in thms:
            try:
                basic.load_theory('nat', limit=('thm', val['name']))
                context.set_context(None, vars=val['vars'])
                st = server.parse_init_state(val['prop'])
            except Exception:
                continue
            visit(st, 'nat.%s (theory up to the theorem)' % val['name'])
    except Exception as e:
        stats['nat_part_error'] = '%s: %s' % (type(e).__name__, str(e)[:150])
    basic.load_theory('logic_base')
    seen = {}
    uniq = []
    by = {}
    for v in violations:
        k = (v['function'], v['clause'])
        by['%s:%s' % k] = by.get('%s:%s' % k, 0) + 1
        if seen.get(k, 0) < 2:
            seen[k] = seen.get(k, 0) + 1
            uniq.append(v)
    return {'name': 'c14_search',
            'rule': 'states reached by the C13 editing sessions (%s); per state 2 choices of goal line and 0-2 visible '
                    'facts; every suggestion (at most 8 per search) applied to a copy with declared parameters filled in' %
                    r13['rule'][:160],
            'evaluations': stats['suggestions'], 'distinct_nontrivial': len(distinct), 'stats': stats,
            'samples': samples, 'violations': uniq, 'n_violations': len(uniq), 'violations_by_clause': by,
            'secs': round(time.time() - t0, 1)}


if __name__ == '__main__':
    import json
    r = run(sys.argv[1] if len(sys.argv) > 1 else 'quick', int(sys.argv[2]) if len(sys.argv) > 2 else 0)
    vs = r.pop('violations')
    r.pop('samples')
    print(json.dumps(r, indent=1, default=str)[:2500])
    for v in vs:
        print(v['function'], '|', v['clause'], '|', v['what'][:400], '| goal:', v['goal'])
