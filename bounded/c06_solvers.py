"""C06 bounded stand-in: goals accepted by the Z3 step / the SymPy step are valid HOL statements.

Z3: generated goals in the translatable fragment (propositional structure, quantifiers over bool/nat/int/real in
positive and negative positions, linear and non-linear arithmetic, truncated subtraction, division, if-then-else,
min/max/abs, of_nat, functions, sets as predicates).  Oracle: an independent guard-correct encoding (nat binders
and nat-valued terms guarded, x / 0 = 0, function equality extensional) given to z3; for a goal the wrapper accepts,
a model of the negation under the guard-correct encoding is a counter-model.  Quantifier-free counter-models are
replayed by an own exact evaluator of the HOL term.
SymPy: equalities / disequalities / inequalities of rational expressions with and without an interval premise;
oracle: exact evaluation (Fraction, x / 0 = 0) on a grid of the interval.
Nothing here is a proof.
"""
import itertools
import os
import random
import sys
import time
from fractions import Fraction

REPO = os.environ.get('HOLPY_REPO', '/repo')


def run(tier='quick', seed=0):
    t0 = time.time()
    if REPO not in sys.path:
        sys.path.insert(0, REPO)
    cwd = os.getcwd()
    os.chdir(REPO)
    try:
        return _run(tier, seed, t0)
    finally:
        os.chdir(cwd)


def _run(tier, seed, t0):
    import z3
    z3.set_param('timeout', 4000)
    from logic import basic, context
    basic.load_theory('real')
    from kernel.type import TFun, BoolType, NatType, IntType, RealType, TConst
    from kernel.term import Var, Term, Implies, And, Or, Not, Forall, Exists, Eq, Const, Abs, Bound, Nat, Int, Real
    from kernel import term as hterm
    from kernel.thm import Thm
    from logic import logic
    from prover import z3wrapper
    from syntax import parser, printer
    from syntax.settings import global_setting
    rng = random.Random(seed)
    violations = []
    samples = []
    distinct = set()
    stats = {'z3_accepted': 0, 'z3_rejected': 0, 'z3_raised': 0, 'oracle_unknown': 0, 'oracle_agree': 0,
             'sympy_accepted': 0, 'sympy_rejected': 0, 'replayed_natively': 0}
    evals = 0
    nonlocal_evals = [0]

    VARS = {'x': 'nat', 'y': 'nat', 'z': 'nat', 'i': 'int', 'j': 'int', 'r': 'real', 's': 'real', 'p': 'bool',
            'q': 'bool', 'f': 'nat => nat', 'g': 'nat => nat', 'h': 'real => real', 'S': 'nat set', 'T': 'nat set',
            'rx': 'real', 'ry': 'real', 'x1': 'nat', 'a1': 'nat'}
    context.set_context('real', vars=VARS)

    def P(s):
        return parser.parse_term(s)

    def pr(t):
        with global_setting(unicode=False, highlight=False):
            return printer.print_term(t)

    # ------------------------------------------------------------------ independent guard-correct encoding
    class Unsupported(Exception):
        pass

    def z3sort(T):
        if T == NatType or T == IntType:
            return z3.IntSort()
        if T == RealType:
            return z3.RealSort()
        if T == BoolType:
            return z3.BoolSort()
        raise Unsupported(str(T))

    def enc_goal(t):
        """returns (z3 formula for t, list of side axioms for free symbols)"""
        axioms = {}

        def const(nm, T):
            if T.is_fun() or (T.is_tconst() and T.name == 'set'):
                if T.is_fun():
                    argTs, resT = T.strip_type()
                else:
                    argTs, resT = [T.args[0]], BoolType
                fn = z3.Function(nm, *([z3sort(A) for A in argTs] + [z3sort(resT)]))
                xs = [z3.Const('ax_%s_%d' % (nm, k), z3sort(A)) for k, A in enumerate(argTs)]
                guards = [x >= 0 for x, A in zip(xs, argTs) if A == NatType]
                if resT == NatType:
                    axioms[nm] = z3.ForAll(xs, z3.Implies(z3.And(*guards) if guards else z3.BoolVal(True), fn(*xs) >= 0))
                return fn, T
            c = z3.Const(nm, z3sort(T))
            return c, T

        def rec(t, env):
            """env: name -> z3 const for bound variables (already guarded at the binder)."""
            if t.is_var():
                if t.name in env:
                    return env[t.name]
                c, _ = const(t.name, t.T)
                if t.T == NatType:
                    axioms[t.name] = c >= 0
                return c
            if t.is_forall() or t.is_exists():
                v, body = t.arg.dest_abs()
                nm = v.name
                k = 0
                while nm in env:
                    k += 1
                    nm = v.name + str(k)
                zv = z3.Const('b_' + nm, z3sort(v.T))
                env2 = dict(env)
                env2[v.name] = zv
                b = rec(body, env2)
                if t.is_forall():
                    return z3.ForAll(zv, z3.Implies(zv >= 0, b) if v.T == NatType else b)
                return z3.Exists(zv, z3.And(zv >= 0, b) if v.T == NatType else b)
            if t.is_number():
                n = t.dest_number()
                if isinstance(n, Fraction):
                    return z3.RealVal(str(n))
                T = t.get_type()
                return z3.RealVal(n) if T == RealType else z3.IntVal(n)
            if t.is_implies():
                return z3.Implies(rec(t.arg1, env), rec(t.arg, env))
            if t.is_equals():
                T = t.arg1.get_type()
                if T.is_fun() or (T.is_tconst() and T.name == 'set'):
                    argTs = T.strip_type()[0] if T.is_fun() else [T.args[0]]
                    if len(argTs) != 1:
                        raise Unsupported('function equality')
                    zv = z3.Const('e_%d' % len(axioms), z3sort(argTs[0]))
                    fa, fb = rec(t.arg1, env), rec(t.arg, env)
                    b = fa(zv) == fb(zv)
                    axioms.setdefault('_e%d' % len(axioms), z3.BoolVal(True))
                    return z3.ForAll(zv, z3.Implies(zv >= 0, b) if argTs[0] == NatType else b)
                return rec(t.arg1, env) == rec(t.arg, env)
            if t.is_conj():
                return z3.And(rec(t.arg1, env), rec(t.arg, env))
            if t.is_disj():
                return z3.Or(rec(t.arg1, env), rec(t.arg, env))
            if t.is_not():
                return z3.Not(rec(t.arg, env))
            if logic.is_if(t):
                b, t1, t2 = t.args
                return z3.If(rec(b, env), rec(t1, env), rec(t2, env))
            if t.is_plus():
                return rec(t.arg1, env) + rec(t.arg, env)
            if t.is_minus():
                m, n = rec(t.arg1, env), rec(t.arg, env)
                if t.arg1.get_type() == NatType:
                    return z3.If(m >= n, m - n, z3.IntVal(0))
                return m - n
            if t.is_uminus():
                return -rec(t.arg, env)
            if t.is_times():
                return rec(t.arg1, env) * rec(t.arg, env)
            if t.is_divides():
                a, b = rec(t.arg1, env), rec(t.arg, env)
                return z3.If(b == 0, z3.RealVal(0), a / b)
            if t.is_less_eq():
                return rec(t.arg1, env) <= rec(t.arg, env)
            if t.is_less():
                return rec(t.arg1, env) < rec(t.arg, env)
            if t.is_greater_eq():
                return rec(t.arg1, env) >= rec(t.arg, env)
            if t.is_greater():
                return rec(t.arg1, env) > rec(t.arg, env)
            if t.is_comb('of_nat', 1) and t.get_type() == RealType:
                return z3.ToReal(rec(t.arg, env))
            if t.is_comb('max', 2):
                a, b = rec(t.arg1, env), rec(t.arg, env)
                return z3.If(a >= b, a, b)
            if t.is_comb('min', 2):
                a, b = rec(t.arg1, env), rec(t.arg, env)
                return z3.If(a <= b, a, b)
            if t.is_comb('abs', 1):
                a = rec(t.arg, env)
                return z3.If(a >= 0, a, -a)
            if t.is_comb('member', 2):
                return rec(t.arg, env)(rec(t.arg1, env))
            if t.is_comb() and t.fun.is_var():
                return rec(t.fun, env)(rec(t.arg, env))
            if t.is_const() and t.name == 'true':
                return z3.BoolVal(True)
            if t.is_const() and t.name == 'false':
                return z3.BoolVal(False)
            raise Unsupported(repr(t)[:80])
        f = rec(t, {})
        return f, list(axioms.values())

    # exact evaluation of quantifier-free terms under an assignment (replay)
    def ev(t, env):
        if t.is_var():
            return env[t.name]
        if t.is_number():
            return t.dest_number()
        if t.is_implies():
            return (not ev(t.arg1, env)) or ev(t.arg, env)
        if t.is_equals():
            return ev(t.arg1, env) == ev(t.arg, env)
        if t.is_conj():
            return ev(t.arg1, env) and ev(t.arg, env)
        if t.is_disj():
            return ev(t.arg1, env) or ev(t.arg, env)
        if t.is_not():
            return not ev(t.arg, env)
        if logic.is_if(t):
            b, t1, t2 = t.args
            return ev(t1, env) if ev(b, env) else ev(t2, env)
        if t.is_plus():
            return ev(t.arg1, env) + ev(t.arg, env)
        if t.is_minus():
            a, b = ev(t.arg1, env), ev(t.arg, env)
            if t.arg1.get_type() == NatType:
                return max(a - b, 0)
            return a - b
        if t.is_uminus():
            return -ev(t.arg, env)
        if t.is_times():
            return ev(t.arg1, env) * ev(t.arg, env)
        if t.is_divides():
            a, b = ev(t.arg1, env), ev(t.arg, env)
            return Fraction(0) if b == 0 else Fraction(a) / Fraction(b)
        if t.is_less_eq():
            return ev(t.arg1, env) <= ev(t.arg, env)
        if t.is_less():
            return ev(t.arg1, env) < ev(t.arg, env)
        if t.is_greater_eq():
            return ev(t.arg1, env) >= ev(t.arg, env)
        if t.is_greater():
            return ev(t.arg1, env) > ev(t.arg, env)
        if t.is_comb('of_nat', 1):
            return Fraction(ev(t.arg, env))
        if t.is_comb('max', 2):
            return max(ev(t.arg1, env), ev(t.arg, env))
        if t.is_comb('min', 2):
            return min(ev(t.arg1, env), ev(t.arg, env))
        if t.is_comb('abs', 1):
            return abs(ev(t.arg, env))
        if t.is_comb('power', 2) and t.arg.is_number():
            return Fraction(ev(t.arg1, env)) ** t.arg.dest_number()
        if t.is_const() and t.name == 'true':
            return True
        if t.is_const() and t.name == 'false':
            return False
        raise Unsupported(repr(t)[:60])

    def model_env(m, t):
        env = {}
        for v in t.get_vars():
            if v.T not in (NatType, IntType, RealType, BoolType):
                return None
            c = z3.Const(v.name, z3sort(v.T))
            val = m.eval(c, model_completion=True)
            if v.T == BoolType:
                env[v.name] = z3.is_true(val)
            elif v.T == RealType:
                try:
                    env[v.name] = Fraction(val.numerator_as_long(), val.denominator_as_long())
                except Exception:
                    return None
            else:
                env[v.name] = val.as_long()
        return env

    # ------------------------------------------------------------------ goal generator
    nat_atoms = ['x', 'y', 'z', '0', '1', '2', 'f x', 'f y', 'g x', 'f 0']
    int_atoms = ['i', 'j', '0', '1', '-1', '2']
    real_atoms = ['r', 's', '0', '1', '2', 'of_nat x', 'of_nat y', 'h r', '1 / 2']

    def g_arith(T, d, bound):
        atoms = {'nat': nat_atoms, 'int': int_atoms, 'real': real_atoms}[T] + [b for b, BT in bound if BT == T]
        if T == 'real':
            atoms = atoms + ['of_nat ' + b for b, BT in bound if BT == 'nat']
        if d <= 0 or rng.random() < 0.3:
            a = rng.choice(atoms)
            if a == '1 / 2':
                return '((1::real) / 2)'
            if a[0] in '0123456789-':
                return '(%s::%s)' % (a, T)
            return '(%s)' % a if ' ' in a else a
        k = rng.random()
        a, b = g_arith(T, d - 1, bound), g_arith(T, d - 1, bound)
        if k < 0.3:
            return '(%s + %s)' % (a, b)
        if k < 0.55:
            return '(%s - %s)' % (a, b)
        if k < 0.7:
            return '(%s * %s)' % (a, b)
        if k < 0.78 and T == 'real':
            return '(%s / %s)' % (a, b)
        if k < 0.85:
            return '(%s %s %s)' % (rng.choice(['max', 'min']), a, b)
        if k < 0.9 and T != 'nat':
            return '(abs %s)' % a
        if k < 0.95:
            return '(if %s then %s else %s)' % (g_form(0, bound), a, b)
        return a

    def g_atom(bound):
        k = rng.random()
        if k < 0.15:
            return rng.choice(['p', 'q'] + [b for b, BT in bound if BT == 'bool'])
        if k < 0.25:
            return '%s Mem %s' % (g_arith('nat', 1, bound), rng.choice(['S', 'T']))
        T = rng.choice(['nat', 'nat', 'int', 'real'])
        op = rng.choice(['=', '<', '<=', '>', '>=', '='])
        return '%s %s %s' % (g_arith(T, 2, bound), op, g_arith(T, 2, bound))

    def g_form(d, bound):
        if d <= 0 or rng.random() < 0.25:
            return g_atom(bound)
        k = rng.random()
        if k < 0.2:
            return '(%s --> %s)' % (g_form(d - 1, bound), g_form(d - 1, bound))
        if k < 0.35:
            return '(%s & %s)' % (g_form(d - 1, bound), g_form(d - 1, bound))
        if k < 0.5:
            return '(%s | %s)' % (g_form(d - 1, bound), g_form(d - 1, bound))
        if k < 0.62:
            return '~(%s)' % g_form(d - 1, bound)
        names = [n for n in ['n', 'm', 'k', 'u', 'v'] if all(n != b for b, _ in bound)]
        if not names:
            return g_atom(bound)
        n = names[0]
        T = rng.choice(['nat', 'nat', 'nat', 'int', 'real', 'bool'])
        q = rng.choice(['!', '?'])
        return '(%s%s::%s. %s)' % (q, n, T, g_form(d - 1, bound + [(n, T)]))

    # hand-picked shapes around the guards (quantifier polarity, function equality, of_nat under binders)
    directed = [
        "?n::nat. n < 0", "(!n::nat. 0 <= n) --> false", "~(!n::nat. n >= 0) --> p", "?n::nat. n + 1 = 0",
        "(?n::nat. n < x) --> x > 0", "~(?n::nat. n < 0)", "!n::nat. n >= 0", "(!n::nat. n > 0 --> n >= 1)",
        "f = g --> false", "~(f = g)", "f = g --> f x = g x", "f = f", "S = T --> x Mem S --> x Mem T", "~(S = T)",
        "(!n::nat. (of_nat n < (1::real) --> n = 0) & (of_nat n >= (1::real) --> n >= 1)) --> false",
        "!n::nat. of_nat n >= (0::real)", "?n::nat. of_nat n > r", "(?n::nat. of_nat n = r) --> r >= 0",
        "r / 0 = 0", "r / r = 1", "~(r = 0) --> r / r = 1", "x - y + y = x", "x >= y --> x - y + y = x", "x - y <= x",
        "(x - y) - z = x - (y + z)", "i - j + j = i", "f x >= 0", "!m::nat. f m >= 0", "x * y >= 0", "i * i >= 0",
        "(?n::nat. !m::nat. m >= n)", "(!n::nat. ?m::nat. m < n) --> false", "(?n::int. n < 0)", "?n::nat. !m::nat. n <= m",
        "(!n::int. n >= 0) --> false", "(!n::nat. f n = 0) --> f 2 = 0", "(!n::nat. f n > n) --> f (f 0) > 1",
        "~(?n::nat. n + n = 1)", "?n::nat. n + n = 1", "(?n::nat. 2 * n = x) | (?n::nat. 2 * n + 1 = x)",
        "min x y <= x", "max x y >= y", "abs i >= 0", "abs r >= r", "(if x < y then x else y) <= x",
        "!b::bool. b | ~b", "?b::bool. b & ~b", "(!n::nat. n Mem S) --> 3 Mem S", "(?n::nat. n Mem S & n < 0) --> false",
        "?n::nat. n Mem S & n < 0", "(!n::nat. n Mem S --> n < 0) --> S = T", "of_nat (x + y) = of_nat x + of_nat y + (0::real)",
        "of_nat x >= (0::real)", "of_nat x = of_nat y + (0::real) --> x = y", "x < y --> of_nat x < of_nat y + (0::real)",
        # user variables named like the fresh names the wrapper invents (r<name> for of_nat <name>, <name>1 for binders)
        "of_nat x = rx", "!n::nat. !rn::real. of_nat n = rn", "!x::nat. !rx::real. of_nat x = rx", "of_nat x = rx --> false",
        "of_nat y = ry & ry < 0 --> false", "!m::nat. !rm::real. of_nat m <= rm", "(?x1::nat. x1 < x) --> x1 < x",
        "(!x1::nat. x1 >= a1) --> a1 = 0", "(?a::nat. a > a1) & a1 > 5 --> (?a::nat. a > 7)",
        # Boolean constants / the empty set on EITHER side of an equivalence (the wrapper simplifies these itself
        # before translating)
        "false <--> p", "p <--> false", "true <--> p", "p <--> true", "(false <--> p) --> ~p", "(p <--> false) --> ~p",
        "(false <--> p) --> p", "(true <--> p) --> p", "(true <--> p) --> ~p", "(x < 0 & false) <--> q",
        "q <--> (x < 0 & false)", "(x < 0 | true) <--> q", "q <--> (x < 0 | true)", "(p --> false) <--> ~p", "(false --> p) <--> q",
        "(empty_set::nat set) = S", "S = (empty_set::nat set)", "x Mem (empty_set::nat set) <--> x Mem S",
        "x Mem S <--> x Mem (empty_set::nat set)", "(univ::nat set) = S", "S = (univ::nat set)",
        "S = (empty_set::nat set) --> x Mem S --> false", "(empty_set::nat set) = S --> x Mem S --> false",
        # numerals that are not in normal form, numerals in the branches of conditionals
        "(2::real) / 10 = 1 / 5", "~((2::real) / 10 = 1 / 5)", "~((1::real) / 10 + 2 / 10 = 3 / 10)",
        "(1::real) / 10 + 2 / 10 = 3 / 10", "p --> (if p then (1::real) else 0) / 2 = 0",
        "p --> (if p then (1::real) else 0) / 2 = 1 / 2", "max (1::real) 2 / 4 = 0", "max (1::real) 2 / 4 = 1 / 2",
        "(6::real) / 4 = 3 / 2", "(6::real) / 4 = 1", "r * (2 / 10) = r / 5", "~(r * (2 / 10) = r / 5)",
        "(if p then (3::real) else 1) / 2 >= 1 / 2", "(if p then (3::real) else 1) / 2 = 1", "abs (3::real) / 2 = 1",
        "min (5::real) 3 / 2 = 1", "(7::int) - 9 < 0", "(7::nat) - 9 = 0", "((3::real) + 1) / 8 = 1 / 2", "((3::real) + 1) / 8 = 0",
    ]

    def z3_case(src, family):
        nonlocal evals
        try:
            t = P(src)
        except Exception:
            return
        key = pr(t)
        if key in distinct:
            return
        distinct.add(key)
        evals += 1
        try:
            verdict = z3wrapper.solve(t)
        except Exception as e:
            stats['z3_raised'] += 1
            return
        if len(samples) < 3:
            samples.append({'goal': key, 'z3wrapper': verdict, 'family': family})
        if not verdict:
            stats['z3_rejected'] += 1
            return
        stats['z3_accepted'] += 1
        try:
            f, axioms = enc_goal(t)
        except Unsupported:
            stats['oracle_unknown'] += 1
            return
        except Exception:
            stats['oracle_unknown'] += 1
            return
        s = z3.Solver()
        s.set('timeout', 8000)
        s.add(z3.Not(f))
        for a in axioms:
            s.add(a)
        r = str(s.check())
        if r == 'unsat':
            stats['oracle_agree'] += 1
            return
        if r != 'sat':
            stats['oracle_unknown'] += 1
            return
        m = s.model()
        v = {'clause': 'z3-valid', 'goal': key, 'family': family,
             'detail': 'z3wrapper.solve accepts the goal; the guard-correct encoding has a counter-model',
             'counter_model': str(m)[:400], 'replayed': False}
        qf = not any(st_.is_forall() or st_.is_exists() for st_ in subterms(t))
        if qf:
            env = model_env(m, t)
            try:
                if env is not None:
                    val = ev(t, env)
                    v['replayed'] = True
                    v['replay_value'] = str(val)
                    v['assignment'] = {k: str(x) for k, x in env.items()}
                    stats['replayed_natively'] += 1
                    if val is True:
                        return          # the counter-model does not replay: not reported (oracle artefact)
            except Unsupported:
                pass
        violations.append(v)

    def subterms(t):
        yield t
        if t.is_comb():
            yield from subterms(t.fun)
            yield from subterms(t.arg)
        elif t.is_abs():
            yield from subterms(t.body)

    for src in directed:
        z3_case(src, 'directed')
    # the same goal under several bound names: a name that is also free in the goal, or is used by a sibling binder,
    # makes the wrapper rename the binder - what it records about bound names (of_nat of a bound variable is ToReal of
    # THAT variable, not one free real) must follow the renaming
    ALL_ = "({v} = 0 --> of_nat {v} = (0::real)) & ({v} = 1 --> of_nat {v} = (1::real))"
    NONE_ = "({v} = 0 & ~(of_nat {v} = (0::real))) | ({v} = 1 & ~(of_nat {v} = (1::real)))"
    renaming = [
        "(!{v}::nat. " + ALL_ + ") --> ~(x = 7)", "y = 2 --> (?{v}::nat. " + NONE_ + ")",
        "(!x::nat. of_nat x + (1::real) > 0) --> (!{v}::nat. " + ALL_ + ") --> false",
        "(!{v}::nat. " + ALL_ + ") --> of_nat x + (1::real) > 0",
        "(?x::nat. x > 3) --> (?{v}::nat. " + NONE_ + ")", "(!{v}::nat. of_nat {v} >= (0::real)) --> of_nat x >= (0::real)",
        "(!{v}::nat. of_nat {v} = r) --> false", "(?{v}::nat. of_nat {v} > of_nat x + (0::real)) --> x < 0",
    ]
    for templ in renaming:
        for v_ in ('k', 'x', 'y', 'x1', 'n'):
            z3_case(templ.replace('{v}', v_), 'bound-name')
    # invalid goals on which z3 tends to answer 'unknown' (quantified recurrences); the counter-model is supplied as
    # a hint and only narrows the oracle's search: the oracle asks for a model of  ~goal & hint
    V0 = z3.Var(0, z3.IntSort())
    hinted = [
        ("(!n::nat. f (n + 1) > f n) --> f 0 > 0", "f n = n", {'f': V0}),
        ("(!n::nat. f (n + 1) = f n + 2) --> f 0 = 0", "f n = 2 * n + 1", {'f': 2 * V0 + 1}),
        ("(!n::nat. g (n + 1) >= g n) --> g 3 > g 0", "g n = 0", {'g': z3.IntVal(0) + 0 * V0}),
        ("(!n::nat. f (n + 2) = f n) --> f 1 = f 0", "f n = (if n mod 2 = 0 then 0 else 1)", {'f': V0 % 2}),
    ]
    for src, hint, defs in hinted:
        nonlocal_evals[0] += 1
        try:
            t = P(src)
            verdict = z3wrapper.solve(t)
        except Exception:
            stats['z3_raised'] += 1
            continue
        distinct.add(pr(t))
        if not verdict:
            stats['z3_rejected'] += 1
            continue
        stats['z3_accepted'] += 1
        try:
            f_, ax = enc_goal(t)
            body = z3.And(z3.Not(f_), *ax) if ax else z3.Not(f_)
            for fn_, d_ in defs.items():
                body = z3.substitute_funs(body, (z3.Function(fn_, z3.IntSort(), z3.IntSort()), d_))
            so = z3.Solver()
            so.set('timeout', 8000)
            so.add(body)
            rr = str(so.check())
        except Exception:
            rr = 'unknown'
        if rr == 'sat':
            violations.append({'clause': 'z3-valid', 'goal': pr(t), 'family': 'hinted',
                               'detail': 'z3wrapper.solve accepts the goal; the guard-correct encoding has a counter-'
                                         'model (found with the hint %s)' % hint, 'counter_model': hint, 'replayed': False})
        else:
            stats['oracle_unknown'] += 1
    # sequences: a call that raises (outside the bridge's own exception), then invalid goals over the same variable
    # names in the same process - state kept from the failed call must not make them provable
    crashing = ["x = 0 --> (?f::nat=>nat. f 0 = x)", "r = 0 --> (?k::real=>real. k 0 = r)",
                "x = 0 & y = 0 --> (if p then f else g) = f", "i = 0 --> (?k::int=>int. k 0 = i)"]
    after = ["x = 1 --> false", "0 < x --> 5 < x", "~(x = 0) --> y = 0", "r = 1 --> false", "i = 2 --> false", "x = y"]
    for cg in crashing:
        try:
            z3wrapper.solve(P(cg))
        except Exception:
            pass
        for k_, ag in enumerate(after):
            distinct.discard(pr(P(ag)))          # the same goal is offered again after every crashing call
            z3_case(ag, 'after-crash')
    n = 250 if tier == 'quick' else 4000
    for it in range(n):
        nprem = rng.choice([0, 0, 1, 2])
        parts = [g_form(rng.choice([1, 2]), []) for _ in range(nprem + 1)]
        z3_case(' --> '.join('(%s)' % p_ for p_ in parts), 'generated')

    # ------------------------------------------------------------------ SymPy step
    from prover import sympywrapper
    context.set_context('transcendentals', vars={'x': 'real', 'y': 'real'})
    grid = [Fraction(a, b) for a in range(-8, 9) for b in (1, 2, 3)]

    def g_rat(d, vs):
        if d <= 0 or rng.random() < 0.3:
            return rng.choice(vs + ['0', '1', '2', '3', '1 / 2'])
        k = rng.random()
        a, b = g_rat(d - 1, vs), g_rat(d - 1, vs)
        if k < 0.3:
            return '(%s + %s)' % (a, b)
        if k < 0.5:
            return '(%s - %s)' % (a, b)
        if k < 0.7:
            return '(%s * %s)' % (a, b)
        if k < 0.85:
            return '(%s / %s)' % (a, b)
        if k < 0.93:
            return '(%s ^ (2::nat))' % a
        return '(abs %s)' % a

    sym_directed = [
        ("(2::nat) - 3 < 0", None), ("~((2::nat) - 3 = 0)", None), ("(2::nat) - 3 = 0", None), ("(5::nat) - 3 = 2", None),
        ("(4::nat) > 2", None), ("(2::nat) - 3 + 3 = 2", None), ("(2::nat) - 3 + 3 = 3", None),
        ("~(x = y)", None), ("~((x + 1) ^ (2::nat) = x ^ (2::nat) + 2 * x + 1)", None), ("x / x = 1", None),
        ("x * (1 / x) = 1", None), ("~(x + 1 = x)", None), ("x + x = 2 * x", None), ("(x::real) = x", None),
        ("~(1 / x = 0)", ('-1', '1', True)), ("1 / x > 0", ('0', '1', True)), ("x / x = 1", ('-1', '1', True)),
        ("x ^ (2::nat) >= 0", ('-1', '1', True)), ("x > 0", ('0', '1', False)), ("x >= 0", ('0', '1', True)),
        ("~(x = 0)", ('0', '1', False)), ("~(x * x = 0)", ('-1', '1', True)), ("x / x > 0", ('-1', '1', True)),
        ("1 / (x - 1) < 0", ('0', '1', True)), ("abs x >= 0", ('-2', '2', True)), ("~(x - y = 0)", ('0', '1', True)),
        ("x * y >= 0", ('0', '1', True)), ("~(1 / (x * x) = 0)", ('-1', '1', True)),
    ]

    def sympy_case(gsrc, interval, family):
        nonlocal evals
        try:
            goal = P(gsrc)
        except Exception:
            return
        prevs = []
        if interval is not None:
            lo, hi, closed = interval
            cond = P('x Mem %s %s %s' % ('real_closed_interval' if closed else 'real_open_interval',
                                           '(%s::real)' % lo, '(%s::real)' % hi))
            prevs = [Thm(cond, cond)]
        key = 'sympy|' + pr(goal) + '|' + str(interval)
        if key in distinct:
            return
        distinct.add(key)
        evals += 1
        try:
            ok = sympywrapper.SymPyMacro().can_eval(goal, prevs)
        except Exception:
            return
        if not ok:
            stats['sympy_rejected'] += 1
            return
        stats['sympy_accepted'] += 1
        names = sorted(v.name for v in goal.get_vars())
        if interval is not None:
            lo, hi, closed = interval
            lo, hi = Fraction(lo), Fraction(hi)
            xs = [a for a in grid if (lo <= a <= hi if closed else lo < a < hi)]
        else:
            xs = grid
        for vals in itertools.product(*[xs if nm == 'x' else grid[::5] for nm in names]):
            env = dict(zip(names, vals))
            try:
                val = ev(goal, env)
            except Unsupported:
                return
            except ZeroDivisionError:
                continue
            if val is False:
                violations.append({'clause': 'sympy-valid', 'goal': pr(goal), 'family': family,
                                   'premise': None if interval is None else 'x in %s%s, %s%s' % (
                                       '[' if interval[2] else '(', interval[0], interval[1], ']' if interval[2] else ')'),
                                   'detail': 'SymPyMacro.can_eval accepts; exact evaluation (x / 0 = 0) refutes',
                                   'assignment': {k: str(x) for k, x in env.items()}, 'replayed': True})
                stats['replayed_natively'] += 1
                return

    for gsrc, interval in sym_directed:
        sympy_case(gsrc, interval, 'directed')
    n2 = 150 if tier == 'quick' else 1500
    for it in range(n2):
        vs = ['x'] if rng.random() < 0.7 else ['x', 'y']
        op = rng.choice(['=', '~=', '<', '<=', '>', '>='])
        a, b = g_rat(2, vs), g_rat(2, vs)
        gsrc = '~(%s = %s)' % (a, b) if op == '~=' else '%s %s %s' % (a, op, b)
        interval = None
        if rng.random() < 0.6:
            lo = rng.choice(['-2', '-1', '0', '1'])
            hi = str(int(lo) + rng.choice([1, 2, 3]))
            interval = (lo, hi, rng.random() < 0.6)
        sympy_case(gsrc, interval, 'generated')
        if interval is not None:
            # the same goal on the interval with the other kind of end points, right afterwards (result cache)
            sympy_case(gsrc, (interval[0], interval[1], not interval[2]), 'generated-other-endpoints')
    for gsrc in ["~(x * (1 - x) = 0)", "~(x = 0)", "~(x - 1 = 0)", "x > 0", "x * (1 - x) > 0", "1 - x > 0",
                 "~(x ^ (2::nat) - x = 0)", "x < 1", "~((x - 1) * (x - 1) = 0)", "x * x < 1"]:
        for first_closed in (False, True):
            sympy_case(gsrc, ('0', '1', first_closed), 'endpoint-sequence')
            sympy_case(gsrc, ('0', '1', not first_closed), 'endpoint-sequence')
            try:
                sympywrapper.solveset_cache.clear()
            except Exception:
                pass

    context.set_context('real', vars={})
    return {
        'name': 'c06_solvers',
        'rule': '%d directed + %d generated goals for the Z3 step (formula depth <= 2 per premise, <= 2 premises, terms '
                'depth <= 2; binders over nat/int/real/bool); oracle z3 on an own guard-correct encoding, quantifier-'
                'free counter-models replayed by exact evaluation; %d directed + %d generated goals for the SymPy '
                'step (rational expressions of depth <= 2 in x, y), exact evaluation on a grid of %d rationals' % (
                    len(directed), n, len(sym_directed), n2, len(grid)),
        'evaluations': evals + nonlocal_evals[0],
        'distinct_nontrivial': len(distinct),
        'samples': samples,
        'stats': stats,
        'violations': violations,
        'secs': round(time.time() - t0, 1),
    }


if __name__ == '__main__':
    import json
    r = run(sys.argv[1] if len(sys.argv) > 1 else 'quick', int(sys.argv[2]) if len(sys.argv) > 2 else 0)
    vs = r.pop('violations')
    print(json.dumps(r, indent=1, default=str)[:2000])
    print(len(vs), 'violations')
    for v in vs[:60]:
        print(v['clause'], '|', v['goal'], '|', v.get('premise'), '|', v.get('assignment') or v.get('counter_model', '')[:100], '| replayed', v.get('replayed'))
