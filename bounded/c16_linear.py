"""Bounded stand-in for C16 (labelled bounded, never counted as proved).

Run-time contract on the REAL prover.omega.solve_matrix (integers) and prover.simplex.Simplex (rationals):
  'UNSAT' / UNSAT only if the system has no (integer / rational) solution (oracle: z3),
  'SAT' / SAT only with an assignment that satisfies every constraint (own evaluation).
Systems: <= 5 variables, <= 8 constraints, coefficients in [-3, 3] (zero rows, duplicate rows, equalities as
paired inequalities, unbounded directions); exhaustive for 2 variables x 2 constraints with coefficients in
[-2, 2], random above.  Each call under a wall-clock limit."""
import os
import itertools
import random
import signal
import sys
import time
from fractions import Fraction


class Timeout(Exception):
    pass


def _alarm(signum, frame):
    raise Timeout()


def z3_has_solution(rows, integer):
    import z3
    n = len(rows[0]) - 1
    xs = [z3.Int('x%d' % i) if integer else z3.Real('x%d' % i) for i in range(n)]
    s = z3.Solver()
    for r in rows:
        s.add(sum(r[i] * xs[i] for i in range(n)) + r[n] >= 0)
    return s.check() == z3.sat


def run(tier='quick', seed=0):
    t0 = time.time()
    if os.environ.get('HOLPY_REPO', '/repo') not in sys.path:
        sys.path.insert(0, os.environ.get('HOLPY_REPO', '/repo'))
    from prover import omega
    from prover import simplex
    rng = random.Random(seed)
    violations = []
    evals = 0
    distinct = set()
    samples = []
    verdicts = {}
    crashes = []

    def limited(fn):
        signal.signal(signal.SIGALRM, _alarm)
        signal.setitimer(signal.ITIMER_REAL, 5.0)
        try:
            return fn()
        finally:
            signal.setitimer(signal.ITIMER_REAL, 0)

    def one_omega(rows):
        nonlocal evals
        n = len(rows[0]) - 1
        key = repr(rows)
        evals += 1
        distinct.add(('omega', key))
        try:
            res, data = limited(lambda: omega.solve_matrix([list(r) for r in rows]))
        except Timeout:
            violations.append({'function': 'prover.omega.solve_matrix', 'clause': 'terminates',
                               'what': 'no answer within 5 s', 'system': key})
            return
        except Exception as e:
            crashes.append(('omega', type(e).__name__, key))      # no answer: not a wrong answer
            return
        verdicts[res] = verdicts.get(res, 0) + 1
        if res == 'UNSAT':
            if z3_has_solution(rows, True):
                violations.append({'function': 'prover.omega.solve_matrix', 'clause': 'contradiction=>no-solution',
                                   'what': 'UNSAT reported but the system has an integer solution', 'system': key})
        elif res == 'SAT':
            vals = [data.get(i, 0) for i in range(n)]
            if any(not float(v).is_integer() for v in vals):
                violations.append({'function': 'prover.omega.solve_matrix', 'clause': 'witness-integral',
                                   'what': 'witness %s is not integral' % data, 'system': key})
            elif any(sum(r[i] * int(vals[i]) for i in range(n)) + r[n] < 0 for r in rows):
                zero_row = any(all(c == 0 for c in r[:n]) for r in rows)
                violations.append({'function': 'prover.omega.solve_matrix',
                                   'clause': 'witness-satisfies:zero-row' if zero_row else 'witness-satisfies',
                                   'what': 'witness %s violates a constraint' % data, 'system': key})
        if len(samples) < 3:
            samples.append({'omega': key, 'result': res})

    def one_simplex(rows, as_upper=(False,)):
        nonlocal evals
        n = len(rows[0]) - 1
        key = repr(rows) + ('' if not any(as_upper) else ' stated-as-upper-bound=%s' % (list(as_upper),))
        evals += 1
        distinct.add(('simplex', key))
        try:
            def go():
                s = simplex.Simplex()
                for k_, r in enumerate(rows):
                    jars = [simplex.Jar(r[i], 'x%d' % i) for i in range(n) if r[i] != 0]
                    if not jars:
                        continue
                    # the row  sum r_i x_i + c >= 0  is stated as  sum r_i x_i >= -c  or as  sum (-r_i) x_i <= c
                    if as_upper[k_ % len(as_upper)]:
                        s.add_ineq(simplex.LessEq([simplex.Jar(-r[i], 'x%d' % i) for i in range(n) if r[i] != 0],
                                                  r[n]))
                    else:
                        s.add_ineq(simplex.GreaterEq(jars, -r[n]))
                try:
                    s.handle_assertion()
                except (simplex.UNSATException, simplex.AssertUpperException, simplex.AssertLowerException):
                    return s, simplex.UNSAT
                return s, simplex.SAT
            s, res = limited(go)
        except Timeout:
            violations.append({'function': 'prover.simplex.Simplex.check', 'clause': 'terminates',
                               'what': 'no answer within 5 s', 'system': key})
            return
        except Exception as e:
            crashes.append(('simplex', type(e).__name__, key))
            return
        rows2 = [r for r in rows if any(r[i] != 0 for i in range(n))]
        if res == simplex.UNSAT:
            if not rows2 or z3_has_solution(rows2, False):
                violations.append({'function': 'prover.simplex.Simplex.check', 'clause': 'unsat=>no-solution',
                                   'what': 'UNSAT reported but the system has a rational solution', 'system': key})
        elif res == simplex.SAT:
            vals = [Fraction(s.mapping.get('x%d' % i, 0)) for i in range(n)]
            if any(sum(r[i] * vals[i] for i in range(n)) + r[n] < 0 for r in rows2):
                violations.append({'function': 'prover.simplex.Simplex.check', 'clause': 'witness-satisfies',
                                   'what': 'assignment %s violates a constraint' % {k: str(v) for k, v in
                                                                                   s.mapping.items()},
                                   'system': key})

    # exhaustive: 2 variables x 2 constraints, coefficients in [-2, 2] (quick: [-1, 1] plus constants [-2, 2])
    rng_c = range(-1, 2) if tier == 'quick' else range(-2, 3)
    rows_all = [r for r in itertools.product(rng_c, rng_c, range(-2, 3))]
    for r1, r2 in itertools.combinations_with_replacement(rows_all, 2):
        one_omega([r1, r2])
        one_simplex([r1, r2])
    # ordered triples of bounds on ONE variable (the order in which bounds are asserted matters for a solver that
    # keeps one lower and one upper bound per row): +-x + c >= 0, c in [-2, 2]
    one_var = [(a, c) for a in (-1, 1) for c in range(-2, 3)]
    for trip in itertools.product(one_var, repeat=3):
        one_simplex(list(trip))
        # the same system with rows that have a negative coefficient stated as upper bounds on x
        one_simplex(list(trip), as_upper=tuple(r[0] < 0 for r in trip))
        one_omega(list(trip))
    # parallel rows: several bounds on the same linear form, then a few unrelated rows
    for it in range(150 if tier == 'quick' else 3000):
        n = rng.randint(1, 4)
        base = tuple(rng.randint(-2, 2) for _ in range(n))
        if not any(base):
            continue
        rows = []
        for _ in range(rng.randint(2, 5)):
            sg = rng.choice([-1, 1])
            rows.append(tuple(sg * c for c in base) + (rng.randint(-5, 5),))
        for _ in range(rng.randint(0, 3)):
            rows.append(tuple(rng.randint(-2, 2) for _ in range(n + 1)))
        one_simplex(rows, as_upper=tuple(rng.random() < 0.5 for _ in rows))
        one_omega(rows)
    # random larger systems
    for it in range(250 if tier == 'quick' else 4000):
        n = rng.randint(1, 5)
        m = rng.randint(1, 8)
        rows = [tuple(rng.randint(-3, 3) for _ in range(n + 1)) for _ in range(m)]
        if rng.random() < 0.3 and m >= 2:
            # an equality as a pair of inequalities
            rows[1] = tuple(-c for c in rows[0])
        if rng.random() < 0.2:
            rows.append(rows[0])
        one_omega(rows)
        one_simplex(rows, as_upper=tuple(rng.random() < 0.4 for _ in rows))
    # Omega only: many systems over 3-4 variables with coefficients of magnitude 1 and 2 (several elimination rounds,
    # shadows that meet rows with nearly opposite variable parts; tuples differing in -1 / -2 collide in CPython's hash)
    rng3 = random.Random('%s/omega-small-coefficients' % seed)
    for it in range(2500 if tier == 'quick' else 20000):
        n = rng3.randint(3, 4)
        m = rng3.randint(4, 7)
        rows = [tuple(rng3.choice([-2, -2, -1, -1, 0, 1, 1, 2]) for _ in range(n)) + (rng3.randint(-6, 6),)
                for _ in range(m)]
        one_omega(rows)
    seen = set()
    uniq = []
    for v in violations:
        k = (v['function'], v['clause'], v['what'][:30])
        if k not in seen:
            seen.add(k)
            uniq.append(v)
    return {'name': 'c16_linear', 'rule': 'all systems of 2 constraints over 2 variables with coefficients in '
            '[-1,1] (thorough [-2,2]) and constants in [-2,2]; random systems with <= 5 variables, <= 8 constraints, '
            'coefficients in [-3,3], with paired and duplicate rows; all ordered triples of bounds on one variable; random '
            'families of parallel rows (several bounds on one linear form); 2500 (thorough 20000) Omega-only systems over 3-4 variables with coefficients of magnitude <= 2; oracle = z3 (LIA / LRA) and own evaluation of '
            'witnesses; 5 s per call; non-trivial = distinct (procedure, system)', 'evaluations': evals,
            'distinct_nontrivial': len(distinct), 'omega_verdicts': verdicts, 'crashes_not_counted': len(crashes), 'crash_samples': crashes[:4], 'samples': samples,
            'violations': uniq[:12], 'n_violations': len(uniq), 'all_violations': len(violations),
            'secs': round(time.time() - t0, 1)}


if __name__ == '__main__':
    import json
    r = run(sys.argv[1] if len(sys.argv) > 1 else 'quick', int(sys.argv[2]) if len(sys.argv) > 2 else 0)
    print(json.dumps({k: v for k, v in r.items() if k != 'samples'}, indent=1, default=str)[:5000])
