"""C13 bounded stand-in: the editing invariant of server.method.ProofState, checked after every editing step.

Sequences: (1) recorded library steps (logic_base; thorough: more theories) replayed step by step, each step on the
live state or on a copy that then replaces it, with perturbed steps interleaved; (2) generated first-order goals
with steps taken from search_method and random perturbations (other ids, other facts, repeated application,
cut / cases / introduction / forall_elim / exists_elim / revert_intro / new_var / inst_exists_goal).
Only steps that complete without error are followed.  Nothing here is a proof.
"""
import os
import copy
import json
import random
import sys
import time


class StepTimeout(BaseException):
    """an editing step or a search did not return within the budget (treated as 'did not complete')"""


def limited(fn, secs=20):
    import signal

    def _alarm(*a):
        raise StepTimeout()
    old = signal.signal(signal.SIGALRM, _alarm)
    signal.alarm(secs)
    try:
        return fn()
    finally:
        signal.alarm(0)
        signal.signal(signal.SIGALRM, old)


def run(tier='quick', seed=0, observer=None, n_goals_override=None):
    t0 = time.time()
    if os.environ.get('HOLPY_REPO', '/repo') not in sys.path:
        sys.path.insert(0, os.environ.get('HOLPY_REPO', '/repo'))
    os.chdir(os.environ.get('HOLPY_REPO', '/repo'))
    try:
        # recorded library steps include the z3 method. z3 answers 'unknown' on some of these quantified goals
        # depending on solver state (the same query is proved at once, then given up on), which is outside C13 (the
        # external step is C06): the sessions run with holpy's own switch check_z3 = False (z3 lines are accepted
        # without calling the solver), so that every run replays the same way. The timeout only guards stray calls.
        import z3
        z3.set_param('timeout', 5000)
        from prover import z3wrapper
        z3wrapper.check_z3 = False
    except Exception:
        pass
    from logic import basic, context
    basic.load_theory('logic_base')
    from kernel import theory
    from kernel.type import TVar, TFun, BoolType
    from kernel.term import Var, Term, Implies, And, Or, Not, Forall, Exists, Eq
    from kernel.thm import Thm
    from kernel.proof import ItemID
    from server import server, method
    from syntax import parser, printer
    from syntax.settings import global_setting
    rng = random.Random(seed)
    violations = []
    samples = []
    stats = {'steps_done': 0, 'steps_rejected': 0, 'on_copy': 0, 'states_checked': 0, 'finished': 0}
    distinct = set()

    def sorry_ids(prf):
        res = []
        for it in prf.items:
            if it.rule == 'sorry':
                res.append(it.id)
            if it.subproof:
                res.extend(sorry_ids(it.subproof))
        return res

    def all_items(prf):
        for it in prf.items:
            yield it
            if it.subproof:
                yield from all_items(it.subproof)

    def snapshot(state):
        with global_setting(unicode=False, highlight=False):
            return str(state), json.dumps(state.export_proof(), sort_keys=True)

    def check_state(state, goal_th, ctx_vars, trace):
        """The invariant of C13 on one state; returns list of (clause, detail)."""
        errs = []
        stats['states_checked'] += 1
        # numbering and citations
        def walk(prf, prefix):
            for i, it in enumerate(prf.items):
                want = ItemID(prefix + (i,))
                if it.id != want:
                    errs.append(('numbering', 'line at position %s carries id %s' % (want, it.id)))
                for p in it.prevs:
                    try:
                        ok = it.id.can_depend_on(p)
                    except Exception:
                        ok = False
                    if not ok:
                        errs.append(('citation', 'line %s cites %s which is not an earlier visible line' % (it.id, p)))
                    else:
                        try:
                            state.prf.find_item(p)
                        except Exception:
                            errs.append(('citation', 'line %s cites missing line %s' % (it.id, p)))
                if it.subproof:
                    walk(it.subproof, prefix + (i,))
        walk(state.prf, ())
        before = snapshot(state)
        try:
            res = state.check_proof()
        except Exception as e:
            errs.append(('recheck', 'full re-check raises %s: %s' % (type(e).__name__, str(e)[:150])))
            return errs
        if res != goal_th:
            errs.append(('recheck', 're-check gives %s, stated goal %s' % (res, goal_th)))
        if state.prf.items[-1].th != goal_th:
            errs.append(('last-line', 'last line is %s' % state.prf.items[-1].th))
        gaps = sorry_ids(state.prf)
        if len(state.rpt.gaps) != len(gaps):
            errs.append(('gaps', 'report has %d gaps, proof has %d sorry lines' % (len(state.rpt.gaps), len(gaps))))
        if not gaps:
            stats['finished'] += 1
            try:
                if state.check_proof(no_gaps=True) != goal_th:
                    errs.append(('no-gaps', 'finished proof checks to a different sequent with gaps disallowed'))
            except Exception as e:
                errs.append(('no-gaps', 'finished proof rejected with gaps disallowed: %s' % str(e)[:150]))
        # export / re-import
        with global_setting(unicode=False, highlight=False):
            data = state.export_proof()
        saved = context.ctxt
        try:
            context.set_context(None, vars=dict(ctx_vars))
            st2 = server.parse_proof(json.loads(json.dumps(data)))
            with global_setting(unicode=False, highlight=False):
                data2 = st2.export_proof()
            if data2 != data:
                k = [i for i in range(min(len(data), len(data2))) if data[i] != data2[i]]
                errs.append(('export-import', 'lines differ after re-import: %s vs %s' % (
                    data[k[0]] if k else len(data), data2[k[0]] if k else len(data2))))
            res2 = st2.check_proof()
            if res2 != res or len(st2.rpt.gaps) != len(gaps):
                errs.append(('export-import', 're-imported proof checks to %s with %d gaps' % (res2, len(st2.rpt.gaps))))
        except Exception as e:
            errs.append(('export-import', 're-import raises %s: %s' % (type(e).__name__, str(e)[:150])))
        finally:
            context.ctxt = saved
        if any(cl_ == 'export-import' for cl_, _ in errs):
            # Is the failure explained by a single line whose OWN sequent does not survive print / parse in the
            # scope of that line (a polymorphic constant such as {} whose type instance the printed text does not
            # determine)?  That is the print / parse defect recorded for C07, classified separately; every other
            # export / re-import failure keeps the plain clause.
            culprit = None
            try:
                for it in all_items(state.prf):
                    if it.th is None or it.rule == 'variable':
                        continue
                    try:
                        scope = dict(ctx_vars)
                        scope.update(state.get_vars(it.id))
                        context.set_context(None, vars=scope)
                        with global_setting(unicode=False, highlight=False):
                            txt = printer.print_thm(it.th)
                        if parser.parse_thm(txt) != it.th:
                            culprit = txt
                    except Exception:
                        culprit = str(it.id)
                    if culprit is not None:
                        break
            except Exception:
                culprit = None
            finally:
                context.ctxt = saved
            if culprit is None and any('unmatched type variable' in d_ for _, d_ in errs):
                # a step whose argument is an instantiation with a non-empty TYPE instantiation: the exported text
                # has no place for it (recorded finding)
                from kernel.term import Inst as _Inst
                for it in all_items(state.prf):
                    as_ = it.args if isinstance(it.args, (tuple, list)) else [it.args]
                    if any(isinstance(a_, _Inst) and len(a_.tyinst) > 0 for a_ in as_):
                        errs = [((cl_ + ':type-instantiation-not-exported') if cl_ == 'export-import' else cl_, d_)
                                for cl_, d_ in errs]
                        break
            if culprit is not None:
                errs = [((cl_ + ':line-not-reparsable') if cl_ == 'export-import' else cl_,
                         d_ + ' [a line of the state does not survive print / parse on its own: %s]' % culprit[:80])
                        for cl_, d_ in errs]
        return errs

    def report(errs, goal, trace, where):
        seen = set()
        for cl, d in errs:
            if (cl, d) in seen:
                continue
            seen.add((cl, d))
            violations.append({'function': 'server.server.ProofState', 'clause': cl, 'detail': d, 'goal': goal,
                               'steps': list(trace), 'where': where})

    def try_step(state, step):
        """Apply step to a copy. Returns the edited copy or None when the step does not complete."""
        st = copy.copy(state)
        try:
            limited(lambda: (method.apply_method(st, step), st.check_proof(compute_only=True)))
        except StepTimeout:
            stats['timeouts'] = stats.get('timeouts', 0) + 1
            return None
        except Exception:
            return None
        return st

    def drive(state, goal_th, goal_str, ctx_vars, next_step, max_steps):
        """Run one editing session."""
        trace = []
        errs = check_state(state, goal_th, ctx_vars, trace)
        if errs:
            report(errs, goal_str, trace, 'initial state')
            return
        for k in range(max_steps):
            step = next_step(state, k)
            if step is None:
                break
            step = {kk: vv for kk, vv in step.items() if not kk.startswith('_') and kk != 'display'}
            orig_snap = snapshot(state)
            st = try_step(state, step)
            # editing a copy (completed or not) never changes the original
            if snapshot(state) != orig_snap:
                report([('copy-isolation', 'original state changed by a step applied to its copy')], goal_str,
                       trace + [step], 'after step %d on a copy' % k)
                return
            if st is None:
                stats['steps_rejected'] += 1
                continue
            stats['steps_done'] += 1
            if rng.random() < 0.5:
                # carry on with the copy; the original must stay checkable and unchanged
                stats['on_copy'] += 1
                old = state
                state = st
                trace.append(dict(step, _on='copy'))
                try:
                    r = old.check_proof()
                    if r != goal_th:
                        report([('copy-isolation', 'original re-checks to %s after its copy was edited' % r)],
                               goal_str, trace, 'original after step %d' % k)
                        return
                except Exception as e:
                    report([('copy-isolation', 'original no longer re-checks after its copy was edited: %s' %
                             str(e)[:150])], goal_str, trace, 'original after step %d' % k)
                    return
            else:
                try:
                    limited(lambda: (method.apply_method(state, step), state.check_proof(compute_only=True)))
                except StepTimeout:
                    stats['timeouts'] = stats.get('timeouts', 0) + 1
                    return
                except Exception as e:
                    report([('determinism', 'step completed on a copy but raised on the live state: %s' %
                             str(e)[:150])], goal_str, trace + [step], 'step %d' % k)
                    return
                trace.append(dict(step, _on='live'))
            try:
                errs = limited(lambda: check_state(state, goal_th, ctx_vars, trace), 120)
            except StepTimeout:
                stats['timeouts'] = stats.get('timeouts', 0) + 1
                return
            if errs:
                report(errs, goal_str, trace, 'after step %d' % k)
                return
            if observer is not None:
                observer(state, {'rng': rng, 'sorry_ids': sorry_ids, 'usable_facts': usable_facts,
                                 'fill_params': lambda st_, sp_, g_: fill_params(st_, sp_, g_, exact=True),
                                 'all_items': all_items, 'goal': goal_str,
                                 'trace': list(trace), 'ctx_vars': ctx_vars})
        distinct.add(goal_str + '|' + json.dumps(trace, sort_keys=True, default=str))
        if len(samples) < 3:
            samples.append({'goal': goal_str, 'steps': [dict(s) for s in trace][:6]})

    # ---------------------------------------------------------------- perturbations
    TA = TVar('a')
    gen_vars = {'A': BoolType, 'B': BoolType, 'C': BoolType, 'P': TFun(TA, BoolType), 'Q': TFun(TA, BoolType),
                'R': TFun(TA, TA, BoolType), 'a': TA, 'b': TA, 'Pb': TFun(BoolType, BoolType)}
    Pb = Var('Pb', gen_vars['Pb'])
    A, B, C = Var('A', BoolType), Var('B', BoolType), Var('C', BoolType)
    P, Q, R = Var('P', gen_vars['P']), Var('Q', gen_vars['Q']), Var('R', gen_vars['R'])
    a, b = Var('a', TA), Var('b', TA)
    bound_names = ['x', 'y', 'z', 'u', 'v', 'w']

    def gen_atom(vs):
        k = rng.random()
        if k < 0.4 or not vs:
            return rng.choice([A, B, C])
        if k < 0.8:
            return rng.choice([P, Q])(rng.choice(vs))
        return R(rng.choice(vs), rng.choice(vs))

    def gen_form(d, vs):
        k = rng.random()
        if d <= 0 or k < 0.2:
            return gen_atom(vs)
        if k < 0.4:
            return Implies(gen_form(d - 1, vs), gen_form(d - 1, vs))
        if k < 0.55:
            return And(gen_form(d - 1, vs), gen_form(d - 1, vs))
        if k < 0.65:
            return Or(gen_form(d - 1, vs), gen_form(d - 1, vs))
        if k < 0.72:
            return Not(gen_form(d - 1, vs))
        free = [n for n in bound_names if all(v.name != n for v in vs)]
        if not free:
            return gen_atom(vs)
        x = Var(free[0], TA)
        body = gen_form(d - 1, vs + [x])
        return Forall(x, body) if k < 0.87 else Exists(x, body)

    def pr(t):
        with global_setting(unicode=False, highlight=False):
            return printer.print_term(t)

    def usable_facts(state, gid):
        res = []
        for it in all_items(state.prf):
            try:
                if it.th is not None and gid.can_depend_on(it.id):
                    res.append(it.id)
            except Exception:
                pass
        return res

    fresh_counter = [0]

    def fill_params(state, step, gid, exact=False):
        """Supply the parameters the method declares and the step leaves open.  exact: only parameters that the
        method must accept (C14); otherwise some are deliberately unsuitable (C13: such steps must be rejected, not
        half done).  Returns None when exact parameters cannot be supplied."""
        m = method.global_methods[step['method_name']]
        for sig in m.sig:
            if sig in step:
                continue
            if sig == 'names':
                fresh_counter[0] += 1
                k_names = 1 if exact else rng.choice([1, 1, 2])
                step['names'] = ', '.join('n%d_%d' % (fresh_counter[0], i) for i in range(k_names))
            elif sig == 's':
                want_T = TA
                if exact:
                    try:
                        if step['method_name'] == 'forall_elim':
                            want_T = state.get_proof_item(ItemID(step['fact_ids'][0])).th.prop.arg.var_T
                        elif step['method_name'] == 'inst_exists_goal':
                            want_T = state.get_proof_item(gid).th.prop.arg.var_T
                    except Exception:
                        return None
                try:
                    vs = [nm for nm, T in state.get_vars(gid).items() if T == want_T]
                except Exception:
                    vs = [] if exact else ['a']
                if exact and not vs:
                    return None
                step['s'] = rng.choice(vs or ['a'])
            elif sig in ('goal', 'case'):
                subs = []
                if rng.random() < 0.75:
                    def closed_bool_subterms(t, acc):
                        try:
                            if not t.is_open() and t.get_type() == BoolType:
                                acc.append(t)
                        except Exception:
                            pass
                        if t.is_comb():
                            closed_bool_subterms(t.fun, acc)
                            closed_bool_subterms(t.arg, acc)
                        elif t.is_abs():
                            closed_bool_subterms(t.body, acc)
                    try:
                        allowed = set(state.get_vars(gid))
                    except Exception:
                        allowed = set()
                    for it in all_items(state.prf):
                        if it.th is not None and it.rule != 'variable':      # |- _VAR x is an internal marker
                            closed_bool_subterms(it.th.prop, subs)
                    subs = [t for t in subs if all(v.name in allowed for v in t.get_vars())]
                step[sig] = pr(rng.choice(subs)) if subs else pr(gen_form(1, [a, b]))
            elif sig == 'var':
                # induction variable: a variable of the goal of the type the induction theorem is about
                try:
                    vT = theory.get_theorem(step['theorem']).concl.arg.T
                    cands = [v_.name for v_ in state.get_proof_item(gid).th.prop.get_vars() if v_.T == vT]
                except Exception:
                    cands = []
                if not cands:
                    if exact:
                        return None
                    cands = ['x']
                step['var'] = rng.choice(sorted(cands))
            elif sig == 'name':
                fresh_counter[0] += 1
                step['name'] = 'm%d' % fresh_counter[0]
            elif sig == 'type':
                step['type'] = rng.choice(["'a", 'bool', "'a => bool"])
        if step['method_name'] == 'introduction' and 'names' not in step:
            fresh_counter[0] += 1
            nq = 0
            try:
                t_ = state.get_proof_item(gid).th.prop
                while t_.is_forall() or t_.is_implies():
                    if t_.is_forall():
                        nq += 1
                        t_ = t_.arg.body
                    else:
                        t_ = t_.arg
            except Exception:
                nq = 1
            if not exact and rng.random() < 0.1:
                nq += 1            # one name too many: the step should be rejected, not half done
            step['names'] = ', '.join('i%d_%d' % (fresh_counter[0], i) for i in range(nq))
            if rng.random() < 0.4:
                # the binders' own names (as the editor proposes them): sibling sub-proofs then declare the SAME name
                bn = []
                try:
                    t_ = state.get_proof_item(gid).th.prop
                    while t_.is_forall() or t_.is_implies():
                        if t_.is_forall():
                            bn.append(t_.arg.var_name)
                            t_ = t_.arg.body
                        else:
                            t_ = t_.arg
                except Exception:
                    bn = []
                if bn and len(set(bn)) == len(bn) and len(bn) == nq:
                    step['names'] = ', '.join(bn)
        return step

    def random_step(state, k):
        gaps = sorry_ids(state.prf)
        ids = [it.id for it in all_items(state.prf)]
        if not gaps:
            if rng.random() < 0.5:
                return None
            gid = rng.choice(ids)
        else:
            gid = rng.choice(gaps) if rng.random() < 0.85 else rng.choice(ids)
        facts = usable_facts(state, gid)
        nf = rng.choice([0, 0, 1, 1, 1, 2])
        if rng.random() < 0.5:
            fs = rng.sample(facts, min(nf, len(facts)))
        else:
            fs = [f for f in reversed(facts)][:nf]          # the most recent visible lines
            rng.shuffle(fs)
        if rng.random() < 0.6:
            try:
                res = limited(lambda: state.search_method(str(gid), [str(f) for f in fs]))
            except (Exception, StepTimeout):
                res = []
            if res:
                step = dict(rng.choice(res))
                step['goal_id'] = str(gid)
                if fs:
                    step.setdefault('fact_ids', [str(f) for f in fs])
                return fill_params(state, step, gid)
        name = rng.choice(['cut', 'cases', 'introduction', 'forall_elim', 'exists_elim', 'revert_intro', 'new_var',
                           'inst_exists_goal', 'apply_prev', 'apply_fact', 'rewrite_goal_with_prev'])
        step = {'method_name': name, 'goal_id': str(gid), 'fact_ids': [str(f) for f in fs]}
        return fill_params(state, step, gid)

    def names_plan():
        """Split conjunctive goals (conjI) and open every universal / implicational gap with the binders' own names,
        so that sibling sub-proofs declare the same variable names; then random steps."""
        def step(state, k):
            try:
                for g in sorry_ids(state.prf):
                    pr_ = state.get_proof_item(g).th.prop
                    if pr_.is_conj():
                        return {'method_name': 'apply_backward_step', 'goal_id': str(g), 'fact_ids': [], 'theorem': 'conjI'}
                    if pr_.is_forall() or pr_.is_implies():
                        bn, t_ = [], pr_
                        while t_.is_forall() or t_.is_implies():
                            if t_.is_forall():
                                bn.append(t_.arg.var_name)
                                t_ = t_.arg.body
                            else:
                                t_ = t_.arg
                        return {'method_name': 'introduction', 'goal_id': str(g), 'fact_ids': [], 'names': ', '.join(bn)}
            except (Exception, StepTimeout):
                pass
            return random_step(state, k)
        return step

    def merge_plan():
        """A directed history around ProofState.replace_id: cut a statement X that a visible fact yields in one
        forward step, open the following goal (introduction), cite the cut line from inside the sub-proof, then
        derive X at the cut line so that the redundant gap is merged into the derived line.  Falls back to random
        steps whenever a stage is not applicable."""
        mem = {'stage': 0, 'cut': None}

        def strip_q(t):
            return t

        def step(state, k):
            try:
                gaps = sorry_ids(state.prf)
                if mem['stage'] == 0:
                    tops = [g for g in gaps if len(g.id) == 1]
                    if not tops:
                        return random_step(state, k)
                    g = tops[-1]
                    cands = []
                    for f in usable_facts(state, g):
                        pr_ = state.get_proof_item(f).th.prop
                        if pr_.is_conj():
                            cands.append((f, pr_.arg1, 'conjD1'))
                            cands.append((f, pr_.arg, 'conjD2'))
                    cands = [c_ for c_ in cands if c_[1].is_conj() or c_[1].is_forall() or c_[1].is_implies() or
                             c_[1].is_exists()] or cands
                    if not cands:
                        mem['stage'] = 9
                        return random_step(state, k)
                    f, x, thname = rng.choice(cands)
                    mem.update(stage=1, cut=g, fact=f, x=x, thname=thname)
                    return {'method_name': 'cut', 'goal_id': str(g), 'fact_ids': [], 'goal': pr(x)}
                if mem['stage'] == 1:
                    mem['stage'] = 2
                    g2 = mem['cut'].incr_id(1)
                    it = state.get_proof_item(g2)
                    if it.rule == 'sorry' and (it.th.prop.is_implies() or it.th.prop.is_forall()):
                        return fill_params(state, {'method_name': 'introduction', 'goal_id': str(g2)}, g2)
                    return random_step(state, k)
                if mem['stage'] == 2:
                    mem['stage'] = 3
                    g2 = mem['cut'].incr_id(1)
                    inner = [g for g in gaps if len(g.id) > 1 and g.id[:1] == g2.id]
                    target = inner[0] if inner else None
                    if target is None:
                        later = [g for g in gaps if len(g.id) == 1 and g.id[0] > mem['cut'].id[0]]
                        target = later[0] if later else None
                    if target is None:
                        return random_step(state, k)
                    res = limited(lambda: state.search_method(str(target), [str(mem['cut'])]))
                    res = [r for r in res if r.get('fact_ids')]
                    if res:
                        st_ = dict(rng.choice(res))
                        return fill_params(state, st_, target)
                    x = mem['x']
                    if x.is_forall():
                        return fill_params(state, {'method_name': 'forall_elim', 'goal_id': str(target),
                                                   'fact_ids': [str(mem['cut'])]}, target)
                    return random_step(state, k)
                if mem['stage'] == 3:
                    mem['stage'] = 9
                    c = mem['cut']
                    if state.get_proof_item(c).rule != 'sorry':
                        return random_step(state, k)
                    return {'method_name': 'apply_forward_step', 'goal_id': str(c), 'fact_ids': [str(mem['fact'])],
                            'theorem': mem['thname']}
            except (Exception, StepTimeout) as e:
                if os.environ.get('C13_DEBUG'):
                    import traceback; traceback.print_exc()
                mem['stage'] = 9
            return random_step(state, k)
        def step_dbg(state, k):
            snap = snapshot(state)[1]
            if mem.get('snap') == snap and mem.get('prev_stage') is not None and mem.get('retries', 0) < 2:
                # the planned step was rejected: try that stage again (other random choices), twice at most
                mem['stage'] = mem['prev_stage']
                mem['retries'] = mem.get('retries', 0) + 1
            else:
                mem['retries'] = 0
            mem['snap'] = snap
            mem['prev_stage'] = mem['stage']
            st0 = mem['stage']
            r = step(state, k)
            if os.environ.get('C13_DEBUG'):
                print('PLAN stage', st0, '->', {kk: vv for kk, vv in (r or {}).items() if kk != 'display' and not kk.startswith('_')}, file=sys.stderr)
            return r
        return step_dbg

    # ---------------------------------------------------------------- (1) generated goals
    n_goals = 240 if tier == 'quick' else 1200
    if n_goals_override is not None:
        n_goals = n_goals_override
    t_last = [time.time()]
    for gi in range(n_goals):
        if os.environ.get('C13_TIMING') and time.time() - t_last[0] > 5:
            print('TIMING goal %d took %.1fs (total %.0fs)' % (gi - 1, time.time() - t_last[0], time.time() - t0),
                  file=sys.stderr, flush=True)
        t_last[0] = time.time()
        context.set_context('logic_base', vars=dict(gen_vars))
        nas = rng.choice([0, 1, 2, 2])
        two_types = False
        if gi % 3 == 0:
            # scenario goals: several existential / universal / conjunctive facts, implication or forall goal
            xv, yv = Var('x', TA), Var('y', TA)
            fam = [lambda: Exists(xv, gen_form(1, [a, xv])), lambda: Exists(xv, Exists(yv, R(xv, yv))),
                   lambda: Forall(yv, Implies(P(yv), Q(yv))), lambda: And(gen_form(1, [a, b]), gen_form(1, [a, b])),
                   lambda: And(Forall(yv, Implies(P(yv), Q(yv))), rng.choice([A, B, C])),
                   lambda: Exists(xv, P(xv)), lambda: Exists(yv, Q(yv)),
                   # bound variables that occur only in the conclusion of the fact
                   lambda: Forall(xv, Implies(rng.choice([A, B, C]), P(xv))),
                   lambda: Forall(xv, Forall(yv, Implies(Q(xv), R(xv, yv)))),
                   lambda: Forall(xv, Implies(rng.choice([A, B]), rng.choice([A, C]), Q(xv)))]
            assms_ = [rng.choice(fam)() for _ in range(rng.choice([1, 2, 2, 3]))]
            concl_ = rng.choice([lambda: Forall(xv, Implies(P(xv), Or(Q(xv), rng.choice([A, B, C])))),
                                 lambda: Implies(gen_form(1, [a, b]), gen_form(1, [a, b])),
                                 lambda: gen_form(2, [a, b]), lambda: rng.choice([A, B, C]),
                                 lambda: rng.choice([P, Q])(rng.choice([a, b])), lambda: R(a, b)])()
            goal = Implies(*(assms_ + [concl_]))
            if rng.random() < 0.2:
                # one bound name at two types in different parts of the goal: the sub-proofs declare the same
                # variable name at different types
                xa, xb = Var('x', TA), Var('x', BoolType)
                goal = rng.choice([
                    lambda: Implies(Forall(xa, P(xa)), Forall(xb, Pb(xb)),
                                    And(Forall(xa, Or(P(xa), A)), Forall(xb, Or(Pb(xb), B)))),
                    lambda: And(Forall(xa, Implies(P(xa), P(xa))), Forall(xb, Implies(Pb(xb), Pb(xb)))),
                    lambda: Implies(Exists(xa, P(xa)), Exists(xb, Pb(xb)),
                                    And(Exists(xa, Or(P(xa), A)), Forall(xb, Implies(Pb(xb), Pb(xb))))),
                    lambda: Implies(A, And(Forall(xb, Implies(Pb(xb), A)), Forall(xa, Implies(Q(xa), A))))])()
                two_types = True
        else:
            goal = Implies(*([gen_form(2, [a, b]) for _ in range(nas)] + [gen_form(2, [a, b])]))
        goal_str = pr(goal)
        try:
            state = server.parse_init_state(goal)
        except Exception as e:
            violations.append({'clause': 'initial', 'detail': 'parse_init_state raises %s' % str(e)[:100], 'goal': goal_str})
            continue
        if two_types:
            drive(state, Thm(goal), goal_str, gen_vars, names_plan(), rng.choice([8, 12]))
        elif gi % 3 == 0 and rng.random() < 0.6:
            drive(state, Thm(goal), goal_str, gen_vars, merge_plan(), rng.choice([8, 12, 16]))
        else:
            drive(state, Thm(goal), goal_str, gen_vars, random_step, rng.choice([4, 8, 12, 16]))

    # ---------------------------------------------------------------- (2) recorded library steps
    # nat: a sample of the theorems whose recorded proof has an induction step (exported with a three-part argument)
    thys = ['logic_base', 'nat'] if tier == 'quick' else ['logic_base', 'logic', 'function', 'set', 'nat']
    lib_deadline = time.time() + (120 if tier == 'quick' else 420)     # wall-clock budget of the library part
    for thy_name in thys:
        with open(os.environ.get('HOLPY_REPO', '/repo') + '/library/%s.json' % thy_name, encoding='utf-8') as f:
            content = json.load(f)['content']
        vals = [v for v in content if v['ty'] == 'thm' and 'steps' in v]
        if tier != 'quick' and thy_name == 'set':
            vals = rng.sample(vals, 12)
        if thy_name == 'nat':
            vals = [v for v in vals if any(st_.get('method_name') == 'induction' for st_ in v['steps'])
                    and len(v['steps']) <= 12]
            vals = rng.sample(vals, min(len(vals), 3 if tier == 'quick' else 10))
        for val in vals:
            if time.time() > lib_deadline:
                stats['library_time_budget_hit'] = stats.get('library_time_budget_hit', 0) + 1
                break
            thm_deadline = time.time() + 60           # one recorded proof: at most a minute of replay
            if os.environ.get('C13_TIMING'):
                print('TIMING library %s.%s at %.0fs' % (thy_name, val['name'], time.time() - t0), file=sys.stderr, flush=True)
            try:
                basic.load_theory(thy_name)     # whole theory: the intros macro itself cites library theorems
                context.set_context(None, vars=val['vars'])
                ctx_vars = dict(context.ctxt.vars)
                state = server.parse_init_state(val['prop'])
            except Exception:
                continue
            goal_th = state.prf.items[-1].th
            steps = list(val['steps'])
            pos = [0]

            def recorded(state, k, steps=steps, pos=pos, thm_deadline=thm_deadline):
                if pos[0] >= len(steps) or time.time() > thm_deadline:
                    return None
                if rng.random() < 0.25:
                    # a perturbed step: only on a copy that is then thrown away (keeps the recorded ids valid)
                    st = random_step(state, k)
                    if st is not None:
                        snap = snapshot(state)
                        cp = try_step(state, {kk: vv for kk, vv in st.items() if not kk.startswith('_') and kk != 'display'})
                        if snapshot(state) != snap:
                            report([('copy-isolation', 'original state changed by a perturbed step on its copy')],
                                   val['name'], [st], 'library replay')
                        elif cp is not None:
                            stats['steps_done'] += 1
                            try:
                                errs = limited(lambda: check_state(cp, goal_th, ctx_vars, []), 120)
                            except StepTimeout:
                                errs = []
                            if errs:
                                report(errs, val['name'], steps[:pos[0]] + [{kk: vv for kk, vv in st.items() if not kk.startswith('_') and kk != 'display'}], 'perturbed step after %d recorded steps' % pos[0])
                s = dict(steps[pos[0]])
                pos[0] += 1
                return s
            drive(state, goal_th, '%s.%s' % (thy_name, val['name']), ctx_vars, recorded, 2 * len(steps) + 2)
    basic.load_theory('logic_base')
    context.set_context('logic_base', vars={})

    return {
        'name': 'c13_state',
        'rule': '%d generated first-order goals (formula depth <= 2, <= 2 assumptions) with up to 12 editing steps '
                'from search_method and random perturbations; recorded library steps of %s replayed with interleaved '
                'perturbed steps; every step first on a copy, then live or adopted (p = 0.5); invariant checked after '
                'every completed step' % (n_goals, '+'.join(thys)),
        'evaluations': stats['states_checked'],
        'distinct_nontrivial': len(distinct),
        'samples': samples,
        'stats': stats,
        'violations': violations,
        'secs': round(time.time() - t0, 1),
    }


if __name__ == '__main__':
    r = run(sys.argv[1] if len(sys.argv) > 1 else 'quick', int(sys.argv[2]) if len(sys.argv) > 2 else 0)
    vs = r.pop('violations')
    print(json.dumps(r, indent=1, default=str)[:2500])
    print(len(vs), 'violations')
    seen = set()
    for v in vs:
        k = (v['clause'], v['detail'][:50])
        if k in seen:
            continue
        seen.add(k)
        print(json.dumps(v, indent=1, default=str)[:1500])
