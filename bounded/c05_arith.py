"""Bounded stand-in for the parts of C05 outside the deductive model (labelled bounded, never counted as
proved): powers, the Python int/Fraction/float tower, real_norm's polynomial normaliser.

Run-time contract on the REAL level-0 macros (nat_eval, int_eval, real_eval, real_compare, real_const_eq,
real_const_ineq, int_const_ineq, real_norm): whenever `eval` returns a sequent, the sequent is true under
exact rational evaluation by the independent evaluator `val` below (truncated subtraction at nat, x/0 = 0,
x ^ n by repeated multiplication, negative integer real exponents as reciprocals; goals with variables
are evaluated at several rational points)."""
import os
import itertools
import random
import sys
import time
from fractions import Fraction


class Inexact(Exception):
    pass


def val(t, env):
    """Exact value of an arithmetic term; raises Inexact when it is not a rational computable here."""
    from kernel.type import NatType
    if t.is_var():
        if t.name in env:
            return env[t.name]
        raise Inexact('variable')
    if t.is_zero():
        return Fraction(0)
    if t.is_one():
        return Fraction(1)
    if t.is_comb('of_nat', 1):
        if t.arg.is_binary():
            return Fraction(t.arg.dest_binary())
        return val(t.arg, env)
    if t.is_comb('of_int', 1):
        return val(t.arg, env)
    if t.is_comb('Suc', 1):
        return val(t.arg, env) + 1
    if t.is_plus():
        return val(t.arg1, env) + val(t.arg, env)
    if t.is_times():
        return val(t.arg1, env) * val(t.arg, env)
    if t.is_uminus():
        return -val(t.arg, env)
    if t.is_minus():
        a, b = val(t.arg1, env), val(t.arg, env)
        if t.get_type() == NatType:
            return max(a - b, Fraction(0))
        return a - b
    if t.is_divides():
        a, b = val(t.arg1, env), val(t.arg, env)
        return Fraction(0) if b == 0 else a / b
    if t.is_comb('real_inverse', 1):
        b = val(t.arg, env)
        return Fraction(0) if b == 0 else 1 / b
    if t.is_comb('power', 2):
        x, p = val(t.arg1, env), val(t.arg, env)
        if p.denominator != 1:
            raise Inexact('fractional exponent')
        p = int(p)
        if p >= 0:
            return x ** p
        if x == 0:
            raise Inexact('0 ^ negative')
        return 1 / (x ** (-p))
    raise Inexact('shape')


def truth(prop, env):
    """Truth of an (in)equation / negation / `g <--> true|false` between arithmetic terms."""
    if prop.is_not():
        return not truth(prop.arg, env)
    if prop.is_equals() and prop.arg.is_const('true'):
        return truth(prop.arg1, env)
    if prop.is_equals() and prop.arg.is_const('false'):
        return not truth(prop.arg1, env)
    a, b = val(prop.arg1, env), val(prop.arg, env)
    if prop.is_equals():
        return a == b
    if prop.is_less():
        return a < b
    if prop.is_less_eq():
        return a <= b
    if prop.is_greater():
        return a > b
    if prop.is_greater_eq():
        return a >= b
    raise Inexact('relation')


def gen_term(rng, T, size, vars_):
    from kernel import term as K
    from kernel.type import NatType, IntType, RealType
    if size <= 1 or rng.random() < 0.25:
        c = rng.random()
        if vars_ and c < 0.35:
            return K.Var(rng.choice(['x', 'y']), T)
        n = rng.choice([0, 1, 2, 3, 5, 10])
        if T == RealType and c > 0.8:
            return K.Real(Fraction(rng.choice([1, 2, 3, -1]), rng.choice([2, 3])))
        if T != NatType and c > 0.7:
            return K.Number(T, -n)
        return K.Number(T, n)
    ops = ['plus', 'minus', 'times']
    if T != NatType:
        ops += ['uminus']
    if T == RealType:
        ops += ['divide', 'of_nat', 'npow', 'rpow']
    if T == IntType:
        ops += []
    if T == NatType:
        ops += ['Suc']
    op = rng.choice(ops)
    if op in ('plus', 'minus', 'times'):
        a, b = gen_term(rng, T, size - 1, vars_), gen_term(rng, T, size - 1, vars_)
        return {'plus': K.plus, 'minus': K.minus, 'times': K.times}[op](T)(a, b)
    if op == 'uminus':
        return K.uminus(T)(gen_term(rng, T, size - 1, vars_))
    if op == 'divide':
        return K.divides(T)(gen_term(rng, T, size - 1, vars_), gen_term(rng, T, size - 1, False))
    if op == 'of_nat':
        return K.of_nat(T)(gen_term(rng, NatType, size - 1, vars_))
    if op == 'Suc':
        return K.Const('Suc', K.TFun(NatType, NatType))(gen_term(rng, NatType, size - 1, vars_))
    if op == 'npow':
        return K.nat_power(T)(gen_term(rng, T, size - 1, vars_), K.Nat(rng.choice([0, 1, 2, 3, 3, 4, 5, 6])))
    if op == 'rpow':
        return K.real_power(T)(gen_term(rng, T, size - 1, False),
                               K.Real(rng.choice([-2, -1, 0, 1, 2, Fraction(1, 2), Fraction(-1, 2)])))
    raise AssertionError


def run(tier='quick', seed=0):
    t0 = time.time()
    if os.environ.get('HOLPY_REPO', '/repo') not in sys.path:
        sys.path.insert(0, os.environ.get('HOLPY_REPO', '/repo'))
    from logic import basic
    basic.load_theory('real')
    from kernel import term as K, theory
    from kernel.type import NatType, IntType, RealType
    from data import nat, integer, real          # registers the macros
    rng = random.Random(seed)
    macros = ['nat_eval', 'int_eval', 'real_eval', 'real_compare', 'real_const_eq', 'real_const_ineq',
              'int_const_ineq', 'real_norm']
    rels = [K.Eq, lambda a, b: K.less(a.get_type())(a, b), lambda a, b: K.less_eq(a.get_type())(a, b),
            lambda a, b: K.greater(a.get_type())(a, b), lambda a, b: K.greater_eq(a.get_type())(a, b)]
    violations = []
    evals = 0
    accepted = 0
    distinct = set()
    samples = []
    n = 2500 if tier == 'quick' else 40000
    for it in range(n):
        T = rng.choice([NatType, IntType, RealType, RealType])
        m = rng.choice(macros)
        with_vars = (m == 'real_norm') and rng.random() < 0.7
        size = rng.choice([1, 2, 3, 3, 4])
        lhs = gen_term(rng, T, size, with_vars)
        r = rng.random()
        try:
            if r < 0.45:
                # a true-looking goal: rhs is the numeral of the exact value (or of the macro's own evaluation)
                v = val(lhs, {'x': Fraction(1), 'y': Fraction(2)}) if not with_vars else None
                if v is None:
                    rhs = gen_term(rng, T, size, with_vars)
                elif T == NatType and (v < 0 or v.denominator != 1):
                    rhs = gen_term(rng, T, 1, False)
                elif T == IntType and v.denominator != 1:
                    rhs = gen_term(rng, T, 1, False)
                else:
                    rhs = K.Number(T, v if v.denominator != 1 else int(v))
            elif r < 0.6:
                # near miss: the float image of the value (what a float leak would compute)
                v = val(lhs, {})
                f = Fraction(float(v)) if T == RealType else v + rng.choice([0, 1])
                rhs = K.Number(T, f if f.denominator != 1 else int(f)) if (T == RealType or f >= 0 or T == IntType) \
                    else gen_term(rng, T, 1, False)
            else:
                rhs = gen_term(rng, T, rng.choice([1, 2, 3]), with_vars)
            goal = rng.choice(rels)(lhs, rhs) if m != 'real_norm' and not m.endswith('_eval') else K.Eq(lhs, rhs)
            if rng.random() < 0.15 and m in ('real_const_ineq', 'int_const_ineq'):
                goal = K.Not(goal)
        except (Inexact, AssertionError, Exception):
            continue
        try:
            res = theory.get_macro(m).eval(goal, [])
        except Exception:
            evals += 1
            continue
        evals += 1
        accepted += 1
        distinct.add(str(res.prop))
        envs = [{}]
        if with_vars:
            envs = [{'x': Fraction(rng.randint(-3, 4), rng.choice([1, 2])), 'y': Fraction(rng.randint(-3, 4))}
                    for _ in range(4)] + [{'x': Fraction(1), 'y': Fraction(2)}]
            if goal.arg1.get_type() == RealType:
                # nat-typed variables under of_nat: non-negative integers
                envs = [{'x': Fraction(rng.randint(0, 4)), 'y': Fraction(rng.randint(0, 4))} for _ in range(5)] + envs
        for env in envs:
            try:
                ok = truth(res.prop, env)
            except (Inexact, ZeroDivisionError):
                continue
            if not ok and not _vars_ill_typed(res.prop, env):
                violations.append({'function': 'macro ' + m, 'clause': 'accepted=>true',
                                   'what': '%s returned |- %s which is false%s' % (
                                       m, res.prop, (' at %s' % {k: str(v) for k, v in env.items()}) if env else ''),
                                   'goal': str(goal)})
                break
        if len(samples) < 5:
            samples.append({'macro': m, 'accepted': str(res.prop)})
    def judge(m, goal, envs):
        nonlocal evals, accepted
        try:
            res = theory.get_macro(m).eval(goal, [])
        except Exception:
            evals += 1
            return
        evals += 1
        accepted += 1
        distinct.add(str(res.prop))
        for env in envs:
            try:
                ok = truth(res.prop, env)
            except (Inexact, ZeroDivisionError):
                continue
            if not ok:
                violations.append({'function': 'macro ' + m, 'clause': 'accepted=>true',
                                   'what': '%s returned |- %s which is false%s' % (
                                       m, res.prop, (' at %s' % {k: str(v) for k, v in env.items()}) if env else ''),
                                   'goal': str(goal)})
                return

    # targeted family 1: integer powers (positive and negative exponents, nat and real exponent) of bases that
    # are not dyadic, against the exact value and against the float image of the value
    for b in (3, 5, 10, Fraction(1, 3), -3, Fraction(2, 7)):
        for e in (-3, -2, -1, 2, 3):
            base = K.Real(b)
            lhs_list = [K.real_power(RealType)(base, K.Real(e))]
            if e >= 0:
                lhs_list.append(K.nat_power(RealType)(base, K.Nat(e)))
            exact = Fraction(b) ** e
            for lhs in lhs_list:
                for rv in (exact, Fraction(float(exact))):
                    rhs = K.Real(rv if rv.denominator != 1 else int(rv))
                    for m in ('real_eval', 'real_const_eq', 'real_norm'):
                        judge(m, K.Eq(lhs, rhs), [{}])
                    for rel in rels[1:]:
                        for m in ('real_compare', 'real_const_ineq', 'real_const_eq'):
                            judge(m, rel(lhs, rhs), [{}])
    # targeted family 2: pushing of_nat through natural-number operations (valid for + and *, not for the
    # truncated -), ground and with natural-number variables
    xn, yn = K.Var('x', NatType), K.Var('y', NatType)
    nat_pairs = [(K.Nat(2), K.Nat(3)), (K.Nat(5), K.Nat(2)), (xn, yn), (xn, K.Nat(1)), (K.Nat(1), yn)]
    onat = K.of_nat(RealType)
    nat_envs = [{'x': Fraction(i), 'y': Fraction(j)} for i in range(4) for j in range(4)]
    for a, b2 in nat_pairs:
        cands = [
            K.Eq(onat(K.minus(NatType)(a, b2)), K.minus(RealType)(onat(a), onat(b2))),
            K.Eq(K.plus(RealType)(onat(K.minus(NatType)(a, b2)), onat(b2)), onat(a)),
            K.Eq(onat(K.plus(NatType)(a, b2)), K.plus(RealType)(onat(a), onat(b2))),
            K.Eq(onat(K.times(NatType)(a, b2)), K.times(RealType)(onat(a), onat(b2))),
            K.Eq(onat(K.minus(NatType)(K.plus(NatType)(a, b2), b2)), onat(a)),
            K.Eq(onat(K.plus(NatType)(K.minus(NatType)(a, b2), b2)), onat(a)),
        ]
        for goal in cands:
            for m in ('real_norm', 'real_eval', 'real_const_eq'):
                judge(m, goal, nat_envs if goal.get_vars() else [{}])

    # targeted family 3: powers of polynomials with numeral exponents 0..8 against the product written out
    # k times (k = e: an identity; k = e - 1, e + 1 and another exponent: not identities)
    xr, yr = K.Var('x', RealType), K.Var('y', RealType)
    rplus, rminus, rtimes, rpow = K.plus(RealType), K.minus(RealType), K.times(RealType), K.nat_power(RealType)
    bases = [xr, rplus(xr, K.Real(1)), rtimes(K.Real(2), xr), rplus(xr, yr), rminus(xr, yr), rtimes(xr, yr)]
    poly_envs = [{'x': Fraction(a), 'y': Fraction(b)} for a, b in ((2, 1), (3, -2), (-2, 5), (Fraction(1, 2), 3), (5, 7))]

    def prod_k(b, k):
        r = K.Real(1)
        for _ in range(k):
            r = rtimes(r, b)
        return r
    for b in bases:
        for e in range(0, 9):
            for k in (e - 1, e, e + 1):
                if k >= 0:
                    judge('real_norm', K.Eq(rpow(b, K.Nat(e)), prod_k(b, k)), poly_envs)
            for e2 in (e - 1, e + 1, 2 * e):
                if e2 >= 0 and e2 != e:
                    judge('real_norm', K.Eq(rpow(b, K.Nat(e)), rpow(b, K.Nat(e2))), poly_envs)
            if e >= 1:
                judge('real_norm', K.Eq(rtimes(rpow(b, K.Nat(e - 1)), b), rpow(b, K.Nat(e))), poly_envs)
                judge('real_norm', K.Eq(rtimes(rpow(b, K.Nat(e - 1)), b), rpow(b, K.Nat(e + 1))), poly_envs)

    # targeted: irrational powers against the float image of their value (Fraction ** Fraction gives a float)
    for b in (2, 3, 5, 7):
        for m in ('real_norm', 'real_eval', 'real_const_eq'):
            lhs = K.real_power(RealType)(K.Real(b), K.Real(Fraction(1, 2)))
            rhs = K.Real(Fraction(float(b) ** 0.5))
            goal = K.Eq(lhs, rhs)
            try:
                res = theory.get_macro(m).eval(goal, [])
            except Exception:
                evals += 1
                continue
            evals += 1
            accepted += 1
            claims_true = not (res.prop.is_equals() and res.prop.arg.is_const('false'))
            r = Fraction(float(b) ** 0.5)
            if claims_true and r * r != b:
                violations.append({'function': 'macro ' + m, 'clause': 'accepted=>true',
                                   'what': '%s returned |- %s: an irrational square root asserted equal to a rational' % (
                                       m, res.prop), 'goal': str(goal)})
    seen = set()
    uniq = []
    for v in violations:
        k = (v['function'], v['what'][:50])
        if k not in seen:
            seen.add(k)
            uniq.append(v)
    return {'name': 'c05_arith', 'rule': 'random ground goals (size <= 4) at nat/int/real over numerals, + - * / uminus '
            'Suc of_nat, x^n, x^(p::real) with p in {-2,-1,0,1,2,1/2,-1/2}; right-hand sides: exact value, float image '
            'of the value, off-by-one, random; real_norm also with variables (evaluated at 5-10 rational points); '
            'non-trivial = distinct accepted sequents', 'evaluations': evals, 'distinct_nontrivial': len(distinct),
            'accepted': accepted, 'samples': samples, 'violations': uniq[:12], 'n_violations': len(uniq),
            'secs': round(time.time() - t0, 1)}


def _vars_ill_typed(prop, env):
    """Variables of type nat must be evaluated at naturals (and int at integers)."""
    from kernel.type import NatType, IntType
    for v in prop.get_vars():
        x = env.get(v.name)
        if x is None:
            continue
        if v.T == NatType and (x < 0 or x.denominator != 1):
            return True
        if v.T == IntType and x.denominator != 1:
            return True
    return False


if __name__ == '__main__':
    import json
    r = run(sys.argv[1] if len(sys.argv) > 1 else 'quick', int(sys.argv[2]) if len(sys.argv) > 2 else 0)
    print(json.dumps({k: v for k, v in r.items() if k != 'samples'}, indent=1, default=str)[:5000])
