"""C18 bounded stand-in: every conclusion accepted by the evaluation of a veriT rule step follows from its premises.

Generic part (rule-agnostic): for every registered verit_* macro that takes the conclusion clause as its arguments,
and every principal formula phi from a pool (conjunction, disjunction, implication, equivalence, if-then-else, xor,
double negation over propositional, equational and arithmetic atoms), all clauses of <= 2 (thorough 3) literals
taken from the components of phi, their negations, phi and ~phi are offered as conclusion, with premises [], [phi] or
[~phi] (with a hypothesis attached).  This enumerates the correct instances AND the near misses (literal dropped,
added, negated, permuted; shorter / longer clause).  Dedicated parts: th_resolution (own resolvents, wrong pivots,
dropped literals), equality chains (eq_transitive, trans, cong, eq_congruent, eq_congruent_pred, eq_reflexive),
la_generic (Farkas combinations with perturbed coefficients / constants / strictness).
Oracle: validity of  premises --> clause  decided by z3 on an own encoding.  Nothing here is a proof.
"""
import contextlib
import io
import itertools
import os
import random
import sys
import time


def run(tier='quick', seed=0, on_accept=None):
    t0 = time.time()
    REPO = os.environ.get('HOLPY_REPO', '/repo')
    if REPO not in sys.path:
        sys.path.insert(0, REPO)
    import smt
    if REPO + '/smt' not in smt.__path__:
        smt.__path__.insert(0, REPO + '/smt')
    cwd = os.getcwd()
    os.chdir(REPO)
    try:
        return _run(tier, seed, t0, on_accept)
    finally:
        os.chdir(cwd)


def _run(tier, seed, t0, on_accept=None):
    import z3
    from logic import basic
    import smt.veriT.verit_macro as vm
    from smt.veriT import la_generic      # registers verit_la_generic
    basic.load_theory('verit')
    from kernel import theory, term as K
    from kernel.type import TFun, BoolType, IntType, RealType
    from kernel.term import Var, Term, And, Or, Not, Implies, Eq, Int, Real
    from kernel.thm import Thm
    from logic import logic
    rng = random.Random(seed)
    violations = []
    samples = []
    distinct = set()
    evals = 0
    accepted = 0
    stats = {}

    p, q, r = Var('p', BoolType), Var('q', BoolType), Var('r', BoolType)
    a, b, c, d = [Var(n, IntType) for n in 'abcd']
    x, y, z = [Var(n, IntType) for n in 'xyz']
    f = Var('f', TFun(IntType, IntType))
    g2 = Var('g', TFun(IntType, IntType, IntType))
    Pp = Var('P', TFun(IntType, BoolType))
    H = Var('hyp_', BoolType)
    P2v = Var('P2', TFun(IntType, IntType, BoolType))
    P3v = Var('P3', TFun(IntType, IntType, IntType, BoolType))
    g3v = Var('g3', TFun(IntType, IntType, IntType, IntType))

    # ------------------------------------------------------------ own encoding for the oracle
    class Unsupported(Exception):
        pass

    def zsort(T):
        if T == IntType:
            return z3.IntSort()
        if T == RealType:
            return z3.RealSort()
        if T == BoolType:
            return z3.BoolSort()
        raise Unsupported(str(T))

    def enc(t):
        if t.is_var():
            if t.T.is_fun():
                argTs, resT = t.T.strip_type()
                return z3.Function(t.name, *([zsort(A) for A in argTs] + [zsort(resT)]))
            return z3.Const(t.name, zsort(t.T))
        if t.is_number():
            n = t.dest_number()
            return z3.RealVal(str(n)) if t.get_type() == RealType else z3.IntVal(int(n))
        if t.is_const() and t.name == 'true':
            return z3.BoolVal(True)
        if t.is_const() and t.name == 'false':
            return z3.BoolVal(False)
        if t.is_implies():
            return z3.Implies(enc(t.arg1), enc(t.arg))
        if t.is_equals():
            return enc(t.arg1) == enc(t.arg)
        if t.is_conj():
            return z3.And(enc(t.arg1), enc(t.arg))
        if t.is_disj():
            return z3.Or(enc(t.arg1), enc(t.arg))
        if t.is_not():
            return z3.Not(enc(t.arg))
        if logic.is_if(t):
            c_, t1, t2 = t.args
            return z3.If(enc(c_), enc(t1), enc(t2))
        if logic.is_xor(t):
            return z3.Xor(enc(t.args[0]), enc(t.args[1]))
        if t.is_plus():
            return enc(t.arg1) + enc(t.arg)
        if t.is_minus():
            return enc(t.arg1) - enc(t.arg)
        if t.is_uminus():
            return -enc(t.arg)
        if t.is_times():
            return enc(t.arg1) * enc(t.arg)
        if t.is_less_eq():
            return enc(t.arg1) <= enc(t.arg)
        if t.is_less():
            return enc(t.arg1) < enc(t.arg)
        if t.is_greater_eq():
            return enc(t.arg1) >= enc(t.arg)
        if t.is_greater():
            return enc(t.arg1) > enc(t.arg)
        if t.is_comb() and t.head.is_var():
            return enc(t.head)(*[enc(u) for u in t.args])
        raise Unsupported(repr(t)[:80])

    valid_cache = {}

    def follows(prems, concl):
        """True / False (with counter-model) / None (undecided or outside the encoding)"""
        key = (tuple(repr(t) for t in prems), repr(concl))
        if key in valid_cache:
            return valid_cache[key]
        try:
            s = z3.Solver()
            s.set('timeout', 3000)
            for t in prems:
                s.add(enc(t))
            s.add(z3.Not(enc(concl)))
            res = str(s.check())
            out = (True, None) if res == 'unsat' else ((False, str(s.model())[:300]) if res == 'sat' else (None, None))
        except Unsupported:
            out = (None, None)
        except z3.Z3Exception:
            out = (None, None)
        valid_cache[key] = out
        return out

    sink = io.StringIO()

    def try_rule(name, args, prevs, family):
        """prevs: list of Thm. Returns nothing; records a violation when an accepted conclusion does not follow."""
        nonlocal evals, accepted
        evals += 1
        macro = theory.get_macro(name)
        try:
            with contextlib.redirect_stdout(sink):
                th = macro.eval(args, prevs)
        except Exception:
            return False
        finally:
            sink.seek(0)
            sink.truncate()
        if not isinstance(th, Thm):
            return False
        accepted += 1
        stats[name] = stats.get(name, 0) + 1
        if on_accept is not None:
            on_accept(name, args, prevs, th, family)
        distinct.add((name, repr(args)[:400], repr([pv.prop for pv in prevs])[:300]))
        prem_props = [pv.prop for pv in prevs]
        allowed_hyps = set(h for pv in prevs for h in pv.hyps)
        if not set(th.hyps) <= allowed_hyps:
            violations.append({'function': name, 'clause': 'hyps', 'family': family,
                               'what': 'conclusion has hypotheses %s, premises have %s' % (
                                   [str(h) for h in th.hyps], [str(h) for h in allowed_hyps]),
                               'premises': [str(t) for t in prem_props], 'conclusion': str(th.prop)})
        # only premises whose hypotheses the conclusion carries may have been used: a conclusion with fewer
        # hypotheses must follow from the remaining premises alone (a tautology rule may ignore its premises)
        prem_props = [pv.prop for pv in prevs if set(pv.hyps) <= set(th.hyps)]
        ok, model = follows(prem_props, th.prop)
        if ok is False:
            violations.append({'function': name, 'clause': 'consequence', 'family': family,
                               'what': 'accepted conclusion %s does not follow from premises %s' % (
                                   th.prop, [str(t) for t in prem_props]),
                               'premises': [str(t) for t in prem_props], 'conclusion': str(th.prop),
                               'arguments': [str(u) if isinstance(u, Term) else repr(u) for u in args]
                               if isinstance(args, (tuple, list)) else repr(args),
                               'counter_model': model})
        elif len(samples) < 4 and ok:
            samples.append({'rule': name, 'premises': [str(t) for t in prem_props], 'conclusion': str(th.prop)})
        return True

    # ------------------------------------------------------------ generic part
    rng.seed('%s/generic' % seed)      # every family has its own stream: adding inputs to one does not shift the others
    special = {'verit_th_resolution', 'verit_la_generic', 'verit_refl', 'verit_let', 'verit_bind', 'verit_sko_ex',
               'verit_sko_forall', 'verit_onepoint', 'verit_forall_inst', 'verit_subproof', 'verit_conj_pts',
               'verit_disj_pts', 'verit_imp_conj', 'verit_imp_disj'}
    rules = sorted(n for n in theory.global_macros if n.startswith('verit_') and n not in special)
    atoms = [p, q, r, Eq(a, b), Eq(f(a), c), K.less_eq(IntType)(x, y), K.less(IntType)(x, K.plus(IntType)(y, Int(1)))]

    def lit():
        t = rng.choice(atoms)
        return Not(t) if rng.random() < 0.3 else t

    shape_cycle = [0.1, 0.2, 0.35, 0.5, 0.6, 0.7, 0.8, 0.9, 0.97]      # one value inside every branch below

    def principal(k=None):
        if k is None:
            k = rng.random()
        l1, l2, l3 = lit(), lit(), lit()
        if k < 0.15:
            return And(l1, l2), [l1, l2]
        if k < 0.3:
            return And(l1, l2, l3), [l1, l2, l3]
        if k < 0.42:
            return Or(l1, l2), [l1, l2]
        if k < 0.54:
            return Or(l1, l2, l3), [l1, l2, l3]
        if k < 0.66:
            return Implies(l1, l2), [l1, l2]
        if k < 0.78:
            return Eq(l1, l2), [l1, l2]
        if k < 0.88:
            return logic.mk_if(l1, l2, l3), [l1, l2, l3]
        if k < 0.95:
            return logic.mk_xor(l1, l2), [l1, l2]
        return Not(Not(l1)), [l1]

    kmax = 2 if tier == 'quick' else 3
    n_phi = 27 if tier == 'quick' else 108
    for it in range(n_phi):
        phi, comps = principal(shape_cycle[it % len(shape_cycle)])       # every shape, several literal draws
        lits = []
        for t in comps + [phi]:
            for u in (t, Not(t)):
                if u not in lits:
                    lits.append(u)
        if rng.random() < 0.5:
            lits.append(Not(Not(Not(comps[0]))))
        cands = []
        for k in range(1, kmax + 1):
            cands.extend(itertools.product(lits, repeat=k))
        if len(cands) > 900:
            cands = rng.sample(cands, 900)
        for prem in ([], [Thm(phi, H)], [Thm(Not(phi), H)]):
            for name in rules:
                for cl in cands:
                    try_rule(name, tuple(cl), list(prem), 'generic')

    # ------------------------------------------------------------ rewrite-style rules: one equation lhs = rhs
    rng.seed('%s/rewrite-style' % seed)      # every family has its own stream: adding inputs to one does not shift the others
    T_, F_ = K.true, K.false
    i0, i1, i2, i3 = Int(0), Int(1), Int(2), Int(3)
    bool_lhs = [And(p, T_), And(T_, p, q), And(p, F_, q), And(p, p, q), And(p, Not(p)), And(p, q, Not(p)), And(p, q),
                Or(p, F_), Or(F_, p, q), Or(p, T_), Or(p, p, q), Or(p, Not(p)), Or(p, q, Not(q)), Or(p, q),
                Not(Not(p)), Not(T_), Not(F_), Not(p), Not(Implies(p, q)), Not(Or(p, q)), Not(And(p, q)),
                Implies(p, Implies(q, r)), Implies(Implies(p, q), q), And(p, Implies(p, q)),
                Implies(F_, p), Implies(p, T_), Implies(T_, p), Implies(p, F_), Implies(p, p), Implies(Not(p), p),
                Implies(p, Not(p)), Implies(Not(p), Not(q)), Implies(p, q),
                Eq(p, p), Eq(p, Not(p)), Eq(Not(p), p), Eq(T_, p), Eq(p, T_), Eq(F_, p), Eq(p, F_), Eq(Not(p), Not(q)),
                Eq(p, q), Eq(a, a), Eq(a, b), Eq(i1, i1), Eq(i1, i2), Not(Eq(a, a)), Not(Eq(a, b)), Not(Eq(i1, i2)),
                Not(Eq(i1, i1)),
                logic.mk_if(T_, p, q), logic.mk_if(F_, p, q), logic.mk_if(p, q, q), logic.mk_if(Not(p), q, r),
                logic.mk_if(p, T_, F_), logic.mk_if(p, F_, T_), logic.mk_if(p, T_, q), logic.mk_if(p, q, F_),
                logic.mk_if(p, F_, q), logic.mk_if(p, q, T_), logic.mk_if(p, logic.mk_if(p, q, r), r),
                logic.mk_if(p, q, logic.mk_if(p, q, r)), logic.mk_xor(p, q),
                # nested conditionals whose inner condition is ANOTHER one
                logic.mk_if(p, logic.mk_if(r, q, p), r), logic.mk_if(p, q, logic.mk_if(q, p, r)),
                logic.mk_if(p, logic.mk_if(Not(p), q, r), r), logic.mk_if(p, q, logic.mk_if(Not(p), r, q)),
                K.less(IntType)(i1, i2), K.less(IntType)(i2, i1), K.less(IntType)(x, x), K.less_eq(IntType)(i1, i2),
                K.less_eq(IntType)(i2, i1), K.less_eq(IntType)(x, x), K.greater_eq(IntType)(x, y),
                K.greater(IntType)(x, y), K.less(IntType)(x, y), K.less_eq(IntType)(x, y),
                K.greater_eq(IntType)(i2, i1), K.greater(IntType)(i1, i2)]
    bool_rhs = [T_, F_, p, q, r, Not(p), Not(q), And(p, q), Or(p, q), And(q, p), And(p, Not(q)), And(Not(p), Not(q)),
                Or(Not(p), Not(q)), Or(Not(p), q), Or(p, Not(q)), Implies(p, q), Implies(q, p), Eq(p, q), Not(Eq(p, q)),
                And(p, q, r), Implies(And(p, q), r), Or(p, q, r), Implies(p, r), Or(Not(p), r), And(Not(p), r),
                Or(p, r), And(p, r), logic.mk_if(p, q, r), logic.mk_if(p, r, q), Eq(a, b), Not(Eq(a, b)),
                K.less_eq(IntType)(y, x), K.less(IntType)(y, x), Not(K.less_eq(IntType)(x, y)),
                Not(K.less_eq(IntType)(y, x)), Not(K.less(IntType)(y, x)), Not(K.less(IntType)(x, y)),
                K.less_eq(IntType)(x, y), And(K.less_eq(IntType)(x, y), Not(Eq(x, y))), Eq(x, y)]
    pl, mi, ti, um = K.plus(IntType), K.minus(IntType), K.times(IntType), K.uminus(IntType)
    int_lhs = [pl(x, i0), pl(i0, x), pl(i1, i2), pl(pl(x, i1), i2), pl(pl(i1, x), i2), mi(x, x), mi(x, i0), mi(i0, x),
               mi(i3, i1), mi(x, y), ti(x, i0), ti(i0, x), ti(x, i1), ti(i1, x), ti(i2, i3), ti(ti(i2, x), i3),
               um(um(x)), um(i1), um(i0), um(x), um(mi(x, y)), um(pl(x, y)), um(mi(y, x)), mi(um(x), y), um(ti(x, y)), logic.mk_if(T_, x, y), logic.mk_if(F_, x, y), logic.mk_if(p, x, x),
               logic.mk_if(Not(p), x, y)]
    int_rhs = [x, y, i0, i1, i2, i3, Int(5), Int(6), Int(-1), um(x), pl(x, i3), pl(i3, x), ti(Int(6), x), ti(x, Int(6)),
               pl(x, um(y)), mi(y, x), logic.mk_if(p, y, x), logic.mk_if(p, x, y)]
    eq_rules = [n for n in rules if n.endswith('_simplify') or n in (
        'verit_ac_simp', 'verit_connective_def', 'verit_distinct_elim', 'verit_la_rw_eq', 'verit_bfun_elim',
        'verit_ite_intro', 'verit_eq_reflexive')]
    pairs = [(l, r_) for l in bool_lhs for r_ in bool_rhs + [l]] + [(l, r_) for l in int_lhs for r_ in int_rhs + [l]]
    if tier == 'quick':
        # always: every left side against true / false / itself / a numeral (what a simplification rule can conclude
        # about a constant comparison or a collapsing connective); the rest sampled
        core = [(l, r_) for (l, r_) in pairs if r_ in (T_, F_) or r_ == l or r_.is_number()]
        pairs = core + rng.sample([pr_ for pr_ in pairs if pr_ not in core], 900)
    # sums / products of 2-5 factors (variables WITH multiplicity, numerals incl. 0 and 1) against the constant folded
    # in front of: the same factors reordered (valid), one occurrence dropped or duplicated, the constant perturbed
    def chain(op, l):
        t = l[0]
        for u in l[1:]:
            t = op(t, u)
        return t
    ac_pairs = []
    for _ in range(150 if tier == 'quick' else 1500):
        op, unit, fold = rng.choice([(ti, 1, lambda a, b: a * b), (pl, 0, lambda a, b: a + b)])
        n_f = rng.choice([2, 3, 3, 4, 5])
        facs = [rng.choice([x, x, y, z]) if rng.random() < 0.65 else Int(rng.choice([0, 1, 2, 2, 3, -1]))
                for _ in range(n_f)]
        lhs_t = chain(op, facs)
        const = unit
        for f_ in facs:
            if f_.is_number():
                const = fold(const, f_.dest_number())
        rest = [f_ for f_ in facs if not f_.is_number()]
        variants = [list(rest), list(reversed(rest))]
        if rest:
            variants.append(rest[1:])                            # one occurrence dropped
            variants.append(rest + [rest[0]])                    # one occurrence duplicated
            variants.append(sorted(set(rest), key=str))         # multiplicities forgotten
        for rv in variants:
            for c_ in (const, const + 1):
                for with_const in (True, False):
                    parts = ([Int(c_)] if with_const else []) + rv
                    if parts:
                        ac_pairs.append((lhs_t, chain(op, parts)))
                        if len(parts) > 1:
                            ac_pairs.append((lhs_t, chain(op, parts[1:] + parts[:1])))
    pairs += ac_pairs
    for l, r_ in pairs:
        for name in eq_rules:
            try_rule(name, (Eq(l, r_),), [], 'rewrite')
            if rng.random() < 0.1:
                try_rule(name, (Eq(r_, l),), [], 'rewrite')

    # ------------------------------------------------------------ resolution
    rng.seed('%s/resolution' % seed)      # every family has its own stream: adding inputs to one does not shift the others
    def resolvent(cls, drop=None):
        """resolve a chain of clauses left to right on complementary literals (own implementation)"""
        cur = list(cls[0])
        for nxt in cls[1:]:
            nxt = list(nxt)
            piv = None
            for l in cur:
                if Not(l) in nxt:
                    piv = (l, Not(l))
                    break
                if l.is_not() and l.arg in nxt:
                    piv = (l, l.arg)
                    break
            if piv is None:
                return None
            cur = [t for t in cur if t != piv[0]] + [t for t in nxt if t != piv[1]]
            out = []
            for t in cur:
                if t not in out:
                    out.append(t)
            cur = out
        return cur

    n_res = 300 if tier == 'quick' else 5000
    for it in range(n_res):
        m = rng.choice([2, 2, 3])
        cls = []
        for i in range(m):
            cl = []
            for _ in range(rng.choice([1, 2, 3])):
                l = lit()
                if l not in cl and Not(l) not in cl and not (l.is_not() and l.arg in cl):
                    cl.append(l)
            cls.append(cl)
        # make consecutive clauses resolvable
        for i in range(m - 1):
            l = rng.choice(cls[i])
            nl = l.arg if l.is_not() else Not(l)
            if nl not in cls[i + 1]:
                cls[i + 1] = [t for t in cls[i + 1] if t != l] + [nl]
            if rng.random() < 0.3:
                # the pivot atom a second time in one of the two premises, at another negation depth
                # (tautological premises as not_not / equiv_pos produce them): the extra literal must survive
                j = rng.choice([i, i + 1])
                extra = rng.choice([Not(l), Not(nl), Not(Not(l)), Not(Not(nl))])
                if extra not in cls[j]:
                    cls[j] = cls[j] + [extra]
        res = resolvent(cls)
        if res is None:
            continue
        variants = [res]
        if res:
            variants.append(res[:-1])                                   # literal dropped
            variants.append(res[1:])
            variants.append([Not(res[0])] + res[1:])                    # literal negated
            variants.append(list(reversed(res)))                        # permuted
        variants.append(res + [lit()])                                  # literal added (still a consequence)
        variants.append([])                                             # empty clause
        prevs = [Thm(Or(*cl), H) for cl in cls]
        for concl in variants:
            try_rule('verit_th_resolution', (tuple(concl), tuple(len(cl) for cl in cls)), prevs, 'resolution')
        # premise shortened / lengthened through the clause sizes
        sizes = [len(cl) for cl in cls]
        k = rng.randrange(m)
        for dlt in (-1, 1):
            sz = list(sizes)
            sz[k] += dlt
            if sz[k] >= 1:
                try_rule('verit_th_resolution', (tuple(res), tuple(sz)), prevs, 'resolution')

    # ---- connective_def: every way of filling the six (seven) positions of the two definitional equivalences with three
    # atoms - the rule compares components pairwise, a comparison of the wrong pair accepts an equivalence that is not one
    if 'verit_connective_def' in theory.global_macros:
        pool3 = [p, q, r]
        for x_, y_, u_, v_, w_, z_ in itertools.product(pool3, repeat=6):
            try_rule('verit_connective_def', (Eq(Eq(x_, y_), And(Implies(u_, v_), Implies(w_, z_))),), [], 'connective_def')
        for x_, y_, z_, u_, v_, w_, t_ in itertools.product(pool3, repeat=7):
            if (x_, y_, z_) not in ((p, q, r), (p, q, q), (p, p, q)):
                continue
            for neg in (True, False):
                g = Eq(logic.mk_if(x_, y_, z_), And(Implies(u_, v_), Implies(Not(w_) if neg else w_, t_)))
                try_rule('verit_connective_def', (g,), [], 'connective_def')
        for x_, y_, u_, v_, w_, z_ in itertools.product([p, q], repeat=6):
            try_rule('verit_connective_def', (Eq(logic.mk_xor(x_, y_), Or(And(Not(u_), v_), And(w_, Not(z_)))),), [], 'connective_def')

    # ---- resolution with a clause REPEATED among the premises (not adjacent): veriT lists a premise once per use, and
    # the evaluation works on converted copies of the premise clauses - the copies of one clause must stay independent
    rng.seed('%s/resolution-repeat' % seed)
    n_rep = 150 if tier == 'quick' else 2500
    for it in range(n_rep):
        base = []
        for i in range(rng.choice([2, 2, 3])):
            cl = []
            for _ in range(rng.choice([1, 2, 2, 3])):
                l = lit()
                if l not in cl and Not(l) not in cl and not (l.is_not() and l.arg in cl):
                    cl.append(l)
            base.append(cl)
        for i in range(len(base) - 1):
            l = rng.choice(base[i])
            nl = l.arg if l.is_not() else Not(l)
            if nl not in base[i + 1]:
                base[i + 1] = [t for t in base[i + 1] if t != l] + [nl]
        if len(base) == 2:
            order = rng.choice([[0, 1, 0], [1, 0, 1], [0, 1, 0, 1]])
        else:
            order = rng.choice([[0, 1, 2, 0], [0, 1, 0, 2], [1, 0, 2, 1], [2, 1, 0, 2], [0, 1, 2, 1, 0]])
        cls = [list(base[k]) for k in order]
        universe = []
        for cl in base:
            for t in cl:
                if t not in universe:
                    universe.append(t)
        cands = [[]] + [[x] for x in universe] + [[x, y] for x in universe for y in universe if x != y]
        res = resolvent(cls)
        if res is not None:
            cands.append(res)
            cands.extend(res[:k] + res[k + 1:] for k in range(len(res)))
        rng.shuffle(cands)
        prevs = [Thm(Or(*cl), H) for cl in cls]
        for concl in cands[:14]:
            try_rule('verit_th_resolution', (tuple(concl), tuple(len(cl) for cl in cls)), prevs, 'resolution')

    # ------------------------------------------------------------ equality chains
    rng.seed('%s/equality' % seed)      # every family has its own stream: adding inputs to one does not shift the others
    terms = [a, b, c, d, f(a), f(b)]
    n_eq = 300 if tier == 'quick' else 4000
    for it in range(n_eq):
        k = rng.choice([2, 3])
        chain = rng.sample(terms, k + 1)
        eqs = []
        for i in range(k):
            l, r_ = chain[i], chain[i + 1]
            eqs.append(Eq(r_, l) if rng.random() < 0.4 else Eq(l, r_))
        if rng.random() < 0.3:
            # a chain that loops back to its start (the chained equality is then x = x)
            chain[-1] = chain[0]
            eqs[-1] = Eq(chain[-2], chain[0]) if rng.random() < 0.5 else Eq(chain[0], chain[-2])
        goals = [Eq(chain[0], chain[-1]), Eq(chain[-1], chain[0]), Eq(chain[0], chain[1]),
                 Eq(chain[0], rng.choice(terms)), Eq(chain[1], chain[-1]), Eq(rng.choice(terms), chain[0])]
        for goal in goals:
            try_rule('verit_eq_transitive', tuple(Not(e) for e in eqs) + (goal,), [], 'equality')
            try_rule('verit_eq_transitive', tuple(Not(e) for e in eqs[:-1]) + (goal,), [], 'equality')
            try_rule('verit_trans', (goal,), [Thm(e, H) for e in eqs], 'equality')
            try_rule('verit_trans', (goal,), [Thm(e, H) for e in eqs[:-1]], 'equality')
        # congruence
        s1, s2, t1, t2 = rng.choice(terms), rng.choice(terms), rng.choice(terms), rng.choice(terms)
        for goal in [Eq(f(s1), f(s2)), Eq(g2(s1, t1), g2(s2, t2)), Eq(g2(s1, t1), g2(s2, t1)), Eq(f(s1), g2(s2, t2)),
                     Eq(g2(s1, t1), g2(t2, s2)), Eq(Pp(s1), Pp(s2))]:
            for prem in ([Eq(s1, s2)], [Eq(s2, s1)], [Eq(s1, s2), Eq(t1, t2)], [Eq(t1, t2)], []):
                try_rule('verit_cong', (goal,), [Thm(e, H) for e in prem], 'equality')
                try_rule('verit_eq_congruent', tuple(Not(e) for e in prem) + (goal,), [], 'equality')
        for prem in ([Eq(s1, s2)], [Eq(s2, s1)], []):
            for cl in [(Not(Pp(s1)), Pp(s2)), (Pp(s1), Not(Pp(s2))), (Not(Pp(s1)), Pp(t1)), (Pp(s1), Pp(s2))]:
                try_rule('verit_eq_congruent_pred', tuple(Not(e) for e in prem) + cl, [], 'equality')
        # predicates / functions of 2 and 3 arguments with 0..3 premise equalities: every argument position needs
        # its equality (a trailing argument that differs without one must be refused)
        u1, u2 = rng.choice(terms), rng.choice(terms)
        all_prem = [Eq(s1, s2), Eq(t1, t2), Eq(u1, u2)]
        for npr in (0, 1, 2, 3):
            prem = all_prem[:npr]
            for cl in [(Not(P3v(s1, t1, u1)), P3v(s2, t2, u2)), (Not(P3v(s1, t1, u1)), P3v(s2, t2, u1)),
                       (P3v(s1, t1, u1), Not(P3v(s2, t2, u2))), (Not(P2v(s1, t1)), P2v(s2, t2)),
                       (Not(P2v(s1, t1)), P2v(s2, t1)), (Not(P2v(s1, t1)), P2v(t2, s2))]:
                try_rule('verit_eq_congruent_pred', tuple(Not(e) for e in prem) + cl, [], 'equality')
            for goal in [Eq(g3v(s1, t1, u1), g3v(s2, t2, u2)), Eq(g3v(s1, t1, u1), g3v(s2, t2, u1)),
                         Eq(g3v(s1, t1, u1), g3v(s2, t1, u1))]:
                try_rule('verit_eq_congruent', tuple(Not(e) for e in prem) + (goal,), [], 'equality')
                try_rule('verit_cong', (goal,), [Thm(e, H) for e in prem], 'equality')
        try_rule('verit_eq_reflexive', (Eq(s1, s1),), [], 'equality')
        try_rule('verit_eq_reflexive', (Eq(s1, s2),), [], 'equality')

    # ------------------------------------------------------------ la_generic
    rng.seed('%s/la_generic' % seed)      # every family has its own stream: adding inputs to one does not shift the others
    n_la = 300 if tier == 'quick' else 5000
    for it in range(n_la):
        T = rng.choice([IntType, RealType])
        num = Int if T == IntType else Real
        vs = [Var(n, T) for n in ('u', 'v', 'w')]

        def lin():
            t = rng.choice(vs)
            if rng.random() < 0.4:
                t = K.plus(T)(t, num(rng.randint(-2, 2)))
            if rng.random() < 0.2:
                t = K.times(T)(num(rng.randint(1, 3)), t)
            return t
        # a cyclic chain  t0 <= t1, t1 <= t2, t2 < t0 (+ constants) is infeasible; the clause has the negations
        k = rng.choice([2, 3])
        vs_ = rng.sample(vs, k) if k <= 3 else vs
        cons = []
        for i in range(k):
            l, r_ = vs_[i], vs_[(i + 1) % k]
            strict = (i == k - 1)
            cons.append((K.less if strict else K.less_eq)(T)(l, r_))
        coeffs = [1] * k
        for variant in range(6):
            cs = list(cons)
            co = list(coeffs)
            if variant == 1:
                cs[-1] = K.less_eq(T)(cs[-1].arg1, cs[-1].arg)                 # strictness dropped: satisfiable
            elif variant == 2:
                co[rng.randrange(k)] = rng.choice([0, 2, 3])                    # coefficient perturbed
            elif variant == 3:
                j = rng.randrange(k)
                cs[j] = type(cs[j])  if False else (K.less_eq(T)(cs[j].arg1, K.plus(T)(cs[j].arg, num(rng.choice([-1, 1, 2])))))
            elif variant == 4:
                cs = cs[:-1]                                                    # literal dropped
                co = co[:-1]
            elif variant == 5:
                cs = [K.less_eq(T)(lin(), lin()) for _ in range(k)]             # unrelated literals
            lits_ = tuple(Not(c_) for c_ in cs)
            try_rule('verit_la_generic', lits_ + ([num(n) for n in co],), [], 'la_generic')
            # positive literal form: u < v stands for the constraint ~(u < v)
            if cs and variant in (0, 2):
                pos = list(lits_)
                c0 = cs[0]
                pos[0] = (K.less if c0.is_less_eq() else K.less_eq)(T)(c0.arg, c0.arg1)
                try_rule('verit_la_generic', tuple(pos) + ([num(n) for n in co],), [], 'la_generic')

    rng.seed('%s/la-rounding' % seed)
    # two-literal clauses over ONE variable with coefficients > 1 and constants that are not multiples of them
    # (integer rounding of bounds), every sign / strictness / polarity, small coefficient lists
    # The FIRST literal runs through the whole grid (coefficient 1..3 x constant -7..7 x side x strictness x polarity,
    # integers), completed at random (reps times); then purely random clauses as before.
    import itertools as _it
    grid = list(_it.product([1, 2, 3], range(-7, 8), [0, 1], [0, 1], [0, 1]))
    reps = 3 if tier == 'quick' else 25
    n_rand = 600 if tier == 'quick' else 6000
    n_la2 = len(grid) * reps + n_rand
    for it in range(n_la2):
        fixed = grid[it % len(grid)] if it < len(grid) * reps else None
        T = IntType if (fixed is not None or rng.random() < 0.8) else RealType
        num = Int if T == IntType else Real
        u = Var('u', T)
        lits_ = []
        for li in range(2):
            if li == 0 and fixed is not None:
                kco, cv, side, strict, neg = fixed
            else:
                kco, cv, side, strict, neg = (rng.choice([1, 1, 2, 3]), rng.randint(-7, 7), rng.random() < 0.5,
                                              rng.random() < 0.5, rng.random() < 0.5)
            lhs = u if kco == 1 else K.times(T)(num(kco), u)
            cst = num(cv)
            a_, b_ = (lhs, cst) if side else (cst, lhs)
            atom = (K.less if strict else K.less_eq)(T)(a_, b_)
            lits_.append(Not(atom) if neg else atom)
        co = [num(rng.choice([1, 1, 2, 3])), num(rng.choice([1, 1, 2, 3]))]
        try_rule('verit_la_generic', tuple(lits_) + (co,), [], 'la_generic-rounding')

    seen = {}
    uniq = []
    by = {}
    for v in violations:
        kk = (v['function'], v['clause'])
        by['%s:%s' % kk] = by.get('%s:%s' % kk, 0) + 1
        if seen.get(kk, 0) < 2:
            seen[kk] = seen.get(kk, 0) + 1
            uniq.append(v)
    return {'name': 'c18_verit',
            'rule': '%d principal formulas x %d rules x premises {none, phi, ~phi} x all clauses of <= %d literals over the '
                    'components of phi (generic near-miss enumeration); %d resolution chains with 7 conclusion variants and '
                    'perturbed clause sizes; rewrite-style rules on a pool of ~90 left sides x ~40 candidate right sides; %d equality chains / congruences; %d Farkas cycles with 6 variants, %d two-literal clauses over one variable with coefficients 1-3 and constants in [-7,7]; oracle z3 '
                    '(3 s) on an own encoding; non-trivial = distinct accepted (rule, arguments, premises)' % (
                        n_phi, len(rules), kmax, n_res, n_eq, n_la, n_la2),
            'evaluations': evals, 'accepted': accepted, 'distinct_nontrivial': len(distinct),
            'accepted_per_rule': dict(sorted(stats.items())), 'rules_never_accepting': [n for n in rules if n not in stats],
            'samples': samples, 'violations': uniq, 'n_violations': len(uniq), 'violations_by_rule': by,
            'secs': round(time.time() - t0, 1)}


if __name__ == '__main__':
    import json
    r = run(sys.argv[1] if len(sys.argv) > 1 else 'quick', int(sys.argv[2]) if len(sys.argv) > 2 else 0)
    vs = r.pop('violations')
    r.pop('samples')
    print(json.dumps(r, indent=1, default=str)[:4000])
    for v in vs:
        print(v['function'], '|', v['clause'], '|', v['what'][:260])
