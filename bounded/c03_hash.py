"""C03 bounded stand-in for the hash / order clauses (not under a deductive contract): terms that are equal have equal
hashes also after in-place operations (subst_type_inplace, type inference), equal terms compare as equal under
term_ord.fast_compare, and fast_compare is a total order on generated terms (antisymmetric, transitive, agrees with
==); sorted_terms keeps one copy of equal terms.  Nothing here is a proof."""
import os
import random
import sys
import time


def run(tier='quick', seed=0):
    t0 = time.time()
    REPO = os.environ.get('HOLPY_REPO', '/repo')
    if REPO not in sys.path:
        sys.path.insert(0, REPO)
    from logic import basic, context
    basic.load_theory('logic_base')
    from kernel.type import TVar, STVar, TFun, BoolType, TConst, TyInst
    from kernel.term import Var, SVar, Const, Comb, Abs, Bound, And, Or, Not, Implies, Eq, Term
    from kernel import term_ord
    rng = random.Random(seed)
    violations = []
    samples = []
    evals = 0
    distinct = set()
    N = TConst('nat')
    Sa = STVar('a')

    def gen_type(poly):
        k = rng.random()
        if k < 0.4:
            return N
        if k < 0.6:
            return BoolType
        if k < 0.8 and poly:
            return Sa
        return TFun(gen_type(poly), gen_type(poly))

    def gen(d, poly, depth=0):
        """a term description (rebuilt into fresh objects by build)"""
        k = rng.random()
        if d <= 0 or k < 0.3:
            c = rng.random()
            if c < 0.4:
                return ('var', rng.choice('xyz'), gen_type(poly))
            if c < 0.6:
                return ('svar', rng.choice('pq'), gen_type(poly))
            if c < 0.8:
                return ('const', rng.choice(['c', 'd']), gen_type(poly))
            if depth > 0:
                return ('bound', rng.randrange(depth))
            return ('var', 'w', gen_type(poly))
        if k < 0.6:
            return ('comb', gen(d - 1, poly, depth), gen(d - 1, poly, depth))
        if k < 0.75:
            return ('abs', rng.choice('uv'), gen_type(poly), gen(d - 1, poly, depth + 1))
        if k < 0.87:
            return ('conj', gen(d - 1, poly, depth), gen(d - 1, poly, depth))
        return ('disj', gen(d - 1, poly, depth), gen(d - 1, poly, depth))

    conjC = Const('conj', TFun(BoolType, BoolType, BoolType))
    disjC = Const('disj', TFun(BoolType, BoolType, BoolType))

    def build(desc):
        tag = desc[0]
        if tag == 'var':
            return Var(desc[1], desc[2])
        if tag == 'svar':
            return SVar(desc[1], desc[2])
        if tag == 'const':
            return Const(desc[1], desc[2])
        if tag == 'bound':
            return Bound(desc[1])
        if tag == 'comb':
            return Comb(build(desc[1]), build(desc[2]))
        if tag == 'abs':
            return Abs(desc[1], desc[2], build(desc[3]))
        if tag == 'conj':
            return Comb(Comb(Const('conj', TFun(BoolType, BoolType, BoolType)), build(desc[1])), build(desc[2]))
        return Comb(Comb(Const('disj', TFun(BoolType, BoolType, BoolType)), build(desc[1])), build(desc[2]))

    def viol(clause, what, desc):
        violations.append({'function': 'kernel.term.Term.__hash__' if 'hash' in clause else 'kernel.term_ord.fast_compare',
                           'clause': clause, 'what': what, 'term': repr(build(desc))[:400]})

    n = 600 if tier == 'quick' else 12000
    pool = []
    for it in range(n):
        poly = rng.random() < 0.5
        desc = gen(rng.choice([1, 2, 3, 4]), poly)
        t1, t2 = build(desc), build(desc)
        evals += 1
        distinct.add(repr(t1))
        if t1 != t2:
            viol('eq-structural', 'two builds of one description differ under ==', desc)
            continue
        if hash(t1) != hash(t2):
            viol('hash-agrees-with-eq', 'equal terms have different hashes', desc)
        if term_ord.fast_compare(t1, t2) != 0:
            viol('order-agrees-with-eq', 'fast_compare of equal terms is not 0', desc)
        # in-place type instantiation AFTER the hash was computed (t1) and before (t3)
        tyinst = TyInst(a=rng.choice([N, BoolType, TFun(N, N)]))
        t3 = build(desc)
        hash(t1)
        for sub in [t1]:
            # hash every subterm first, as sets / dictionaries of subterms do
            stack = [sub]
            while stack:
                u = stack.pop()
                hash(u)
                if u.is_comb():
                    stack += [u.fun, u.arg]
                elif u.is_abs():
                    stack.append(u.body)
        t1.subst_type_inplace(tyinst)
        t3.subst_type_inplace(tyinst)
        want = build(desc).subst_type(tyinst)
        evals += 1
        if not (t1 == t3 == want):
            viol('inplace-agrees', 'subst_type_inplace differs from subst_type', desc)
        elif not (hash(t1) == hash(t3) == hash(want)):
            viol('hash-agrees-with-eq', 'after subst_type_inplace on a term whose hash was already computed, equal terms '
                                        'have different hashes (stale cached hash)', desc)
        elif len({t1, t3, want}) != 1:
            viol('hash-agrees-with-eq', 'a set of three equal terms has %d elements' % len({t1, t3, want}), desc)
        else:
            st = term_ord.sorted_terms([t1, t3, want])
            if len(st) != 1:
                viol('order-agrees-with-eq', 'sorted_terms keeps %d copies of one term' % len(st), desc)
        pool.append(build(desc))
        if len(samples) < 3:
            samples.append({'term': repr(t1)[:200]})
    # order axioms on triples
    m = 800 if tier == 'quick' else 20000
    for it in range(m):
        a, b, c = rng.choice(pool), rng.choice(pool), rng.choice(pool)
        evals += 1
        ab, ba = term_ord.fast_compare(a, b), term_ord.fast_compare(b, a)
        if (ab == 0) != (a == b):
            violations.append({'function': 'kernel.term_ord.fast_compare', 'clause': 'order-agrees-with-eq',
                               'what': 'fast_compare = %s but == is %s' % (ab, a == b), 'term': repr(a)[:200] + ' / ' + repr(b)[:200]})
        if ab != -ba:
            violations.append({'function': 'kernel.term_ord.fast_compare', 'clause': 'antisymmetric',
                               'what': 'compare(a, b) = %s, compare(b, a) = %s' % (ab, ba), 'term': repr(a)[:200] + ' / ' + repr(b)[:200]})
        bc, ac = term_ord.fast_compare(b, c), term_ord.fast_compare(a, c)
        if ab <= 0 and bc <= 0 and ac > 0:
            violations.append({'function': 'kernel.term_ord.fast_compare', 'clause': 'transitive',
                               'what': 'a <= b <= c but a > c', 'term': repr(a)[:150] + ' / ' + repr(b)[:150] + ' / ' + repr(c)[:150]})
    # type inference works in place on a term that may have been hashed before
    try:
        from syntax import infertype
        context.set_context('logic_base', vars={'A': 'bool', 'B': 'bool'})
        for it in range(60 if tier == 'quick' else 600):
            A, B = Var('A', None), Var('B', None)
            sk = Comb(Comb(Const('conj', None), A), Comb(Const('neg', None), B)) if it % 2 == 0 else \
                Comb(Comb(Const('implies', None), Comb(Comb(Const('disj', None), A), B)), A)
            if it % 3 != 0:
                try:
                    hash(sk)
                    hash(sk.arg)
                except Exception:
                    pass
            res = infertype.type_infer(sk)
            fresh = Comb(Comb(Const('conj', TFun(BoolType, BoolType, BoolType)), Var('A', BoolType)),
                         Comb(Const('neg', TFun(BoolType, BoolType)), Var('B', BoolType))) if it % 2 == 0 else \
                Implies(Or(Var('A', BoolType), Var('B', BoolType)), Var('A', BoolType))
            evals += 1
            if res == fresh and hash(res) != hash(fresh):
                violations.append({'function': 'kernel.term.Term.__hash__', 'clause': 'hash-agrees-with-eq',
                                   'what': 'type_infer on a skeleton that was hashed before: result equals the expected '
                                           'term but has another hash', 'term': repr(res)[:300]})
    except Exception as e:
        pass
    seen = {}
    uniq = []
    for v in violations:
        k = (v['function'], v['clause'])
        if seen.get(k, 0) < 2:
            seen[k] = seen.get(k, 0) + 1
            uniq.append(v)
    return {'name': 'c03_hash',
            'rule': '%d generated terms (depth <= 4, conj / disj chains, binders, polymorphic leaves) built twice: ==, hash, '
                    'fast_compare, in-place type instantiation after hashing every subterm; %d triples for the order '
                    'axioms; type inference on skeletons hashed before' % (n, m),
            'evaluations': evals, 'distinct_nontrivial': len(distinct), 'samples': samples, 'violations': uniq,
            'n_violations': len(uniq), 'all_violations': len(violations), 'secs': round(time.time() - t0, 1)}


if __name__ == '__main__':
    import json
    r = run(sys.argv[1] if len(sys.argv) > 1 else 'quick', int(sys.argv[2]) if len(sys.argv) > 2 else 0)
    vs = r.pop('violations')
    print(json.dumps(r, indent=1, default=str)[:1500])
    for v in vs:
        print(v['function'], '|', v['clause'], '|', v['what'][:200], '|', v['term'][:200])
