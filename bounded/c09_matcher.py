"""Bounded stand-in for C09 (labelled bounded, never counted as proved).

Run-time contract on the REAL logic.matcher.first_order_match / first_order_match_list:
  (a) success => pat.subst_norm(result) equals the target up to beta-eta;
  (b) the result extends (never alters) the instantiation passed in, and the caller's Inst object is
      left exactly as it was;
  (c) completeness for first-order patterns: if the target IS an instance of the pattern (built by
      applying a generated instantiation) then matching succeeds.
Inputs: first-order patterns, Miller patterns under binders, repeated schematic variables, type-polymorphic
patterns, non-pattern applications, pre-seeded instantiations; targets = instances and unrelated terms."""
import copy
import os
import random
import sys
import time


def eta_norm(t):
    from kernel.term import Comb, Abs, Bound
    if t.is_comb():
        return Comb(eta_norm(t.fun), eta_norm(t.arg))
    if t.is_abs():
        b = eta_norm(t.body)
        if b.is_comb() and b.arg.is_bound() and b.arg.n == 0 and not _mentions0(b.fun, 0):
            return _lower(b.fun, 0)
        return Abs(t.var_name, t.var_T, b)
    return t


def _mentions0(t, k):
    if t.is_bound():
        return t.n == k
    if t.is_comb():
        return _mentions0(t.fun, k) or _mentions0(t.arg, k)
    if t.is_abs():
        return _mentions0(t.body, k + 1)
    return False


def _lower(t, k):
    from kernel.term import Comb, Abs, Bound
    if t.is_bound():
        return Bound(t.n - 1) if t.n > k else t
    if t.is_comb():
        return Comb(_lower(t.fun, k), _lower(t.arg, k))
    if t.is_abs():
        return Abs(t.var_name, t.var_T, _lower(t.body, k + 1))
    return t


def snapshot(inst):
    return (dict(inst), dict(inst.tyinst), dict(inst.var_inst), dict(inst.abs_name_inst))


def run(tier='quick', seed=0):
    t0 = time.time()
    if os.environ.get('HOLPY_REPO', '/repo') not in sys.path:
        sys.path.insert(0, os.environ.get('HOLPY_REPO', '/repo'))
    from logic import basic
    basic.load_theory('logic_base')
    from kernel.type import STVar, TVar, TFun, BoolType, TConst
    from kernel.term import SVar, Var, Const, Comb, Abs, Bound, Inst, Lambda, Eq, Implies
    from logic import matcher
    rng = random.Random(seed)
    N = TConst('nat')
    Ta = STVar('a')
    violations = []
    evals = 0
    distinct = set()
    samples = []
    stats = {'matched': 0, 'failed': 0}
    # building blocks
    x, y = Var('x', N), Var('y', N)
    f = Const('f', TFun(N, N))
    g = Const('g', TFun(N, N, N))
    P = Const('P', TFun(N, BoolType))
    c0, c1 = Const('c0', N), Const('c1', N)
    sa, sb = SVar('a', N), SVar('b', N)
    sF = SVar('F', TFun(N, N))
    sG = SVar('G', TFun(N, N, N))
    sp = SVar('p', Ta)          # polymorphic
    eqT = lambda T: Const('equals', TFun(T, T, BoolType))

    def gen_ground(d):
        k = rng.random()
        if d <= 0 or k < 0.35:
            return rng.choice([x, y, c0, c1])
        if k < 0.65:
            return f(gen_ground(d - 1))
        return g(gen_ground(d - 1), gen_ground(d - 1))

    def gen_fo_pat(d):
        k = rng.random()
        if d <= 0 or k < 0.4:
            return rng.choice([sa, sb, sa, x, c0])
        if k < 0.7:
            return f(gen_fo_pat(d - 1))
        return g(gen_fo_pat(d - 1), gen_fo_pat(d - 1))

    def gen_ho_pat():
        k = rng.random()
        if k < 0.3:
            # Miller pattern under a binder: %u. ?F u
            return Lambda(x, g(sF(x), sa))
        if k < 0.5:
            return Lambda(x, Lambda(y, sG(x, y)))
        if k < 0.7:
            return Eq(sF(sa), sb)            # non-pattern application (heuristic branch)
        if k < 0.85:
            return Lambda(x, sF(f(x)))       # argument is not a bound variable
        return eqT(Ta)(sp, sp)               # type-polymorphic, repeated svar

    def apply_inst(pat, inst):
        return pat.subst_norm(inst)

    def gen_inst(pat):
        inst = Inst()
        for v in pat.get_svars():
            if v.name in ('a', 'b'):
                inst[v.name] = gen_ground(2)
            elif v.name == 'F':
                inst[v.name] = rng.choice([f, Lambda(x, g(x, c0)), Lambda(x, c1), Lambda(x, x)])
            elif v.name == 'G':
                inst[v.name] = rng.choice([g, Lambda(x, Lambda(y, g(y, x))), Lambda(x, Lambda(y, f(x)))])
            elif v.name == 'p':
                inst.tyinst['a'] = N
                inst[v.name] = gen_ground(1)
        return inst

    zz = Var('zz_', N)

    def gen_body(d):
        """body of an abstraction: the bound variable (placeholder zz_), free variables x, y, constants"""
        k = rng.random()
        if d <= 0 or k < 0.35:
            return rng.choice([zz, zz, x, y, c0])
        if k < 0.65:
            return f(gen_body(d - 1))
        return g(gen_body(d - 1), gen_body(d - 1))

    def gen_binder_case():
        """patterns with a binder against abstractions whose bodies have free variables named like binders and
        repeated / nested occurrences of the bound variable"""
        pn, tn = rng.choice(['x', 'y', 'u']), rng.choice(['x', 'y', 'u'])
        k = rng.random()
        if k < 0.2:
            # a binder of function type whose variable occurs in the target only as the head of an application;
            # the pattern has an atomic schematic variable (must not capture it) or a Miller pattern (may)
            NN = TFun(N, N)
            hh = Var('hh_', NN)
            inner = rng.choice([hh(c0), hh(hh(c0)), g(hh(c0), c1), f(hh(x)), hh(gen_ground(1)), g(c0, hh(c1))])
            sH = SVar('H', TFun(NN, N))
            pat = Abs(pn, NN, rng.choice([sa, sa, g(sa, c1), f(sa), sH(Bound(0)), g(sH(Bound(0)), sa)]))
            target = Abs(rng.choice(['h', 'x', tn]), NN, inner.abstract_over(hh))
            return pat, target
        if k < 0.5:
            pat = Abs(pn, N, sF(Bound(0)))
            target = Abs(tn, N, gen_body(rng.choice([1, 2, 3])).abstract_over(zz))
        elif k < 0.7:
            pat = Abs(pn, N, g(sF(Bound(0)), sa))
            target = Abs(tn, N, g(gen_body(2), gen_ground(1)).abstract_over(zz))
        elif k < 0.85:
            allT = Const('all', TFun(TFun(N, BoolType), BoolType))
            sP = SVar('P', TFun(N, BoolType))
            pat = allT(Abs(pn, N, sP(Bound(0))))
            target = allT(Abs(tn, N, P(gen_body(2)).abstract_over(zz)))
        else:
            # two binders; the schematic head is applied to both bound variables, or to one of them only (then
            # a target that mentions the other one has no match: the instantiation would let it escape)
            pat = Abs(pn, N, Abs('v', N, rng.choice([sG(Bound(1), Bound(0)), sG(Bound(1), Bound(0)), sF(Bound(0)),
                                                      sF(Bound(1)), g(sF(Bound(0)), sa), g(sF(Bound(0)), Bound(1))])))
            zz2 = Var('zz2_', N)
            b = g(gen_body(1), rng.choice([zz2, f(zz2), x])).abstract_over(zz2)
            target = Abs(tn, N, Abs(rng.choice(['v', 'x']), N, b).abstract_over(zz))
        return pat, target

    n = 1500 if tier == 'quick' else 25000
    for it in range(n):
        fo = rng.random() < 0.45
        binder_case = (not fo) and rng.random() < 0.45
        pat = gen_fo_pat(rng.choice([1, 2, 3])) if fo else gen_ho_pat()
        target_is_instance = rng.random() < 0.6
        if binder_case:
            target_is_instance = False
        try:
            if binder_case:
                pat, target = gen_binder_case()
            elif target_is_instance:
                sigma = gen_inst(pat)
                target = apply_inst(pat, sigma)
            else:
                target = gen_ground(3) if fo else rng.choice(
                    [Lambda(x, g(f(x), c0)), Lambda(x, Lambda(y, g(y, x))), Eq(f(c0), c1), Eq(c0, c0), gen_ground(2)])
        except Exception:
            continue
        pre = Inst()
        if rng.random() < 0.3 and target_is_instance:
            # pre-seeded with part of the generating instantiation
            for k2 in list(sigma.keys())[:1]:
                pre[k2] = sigma[k2]
            pre.tyinst.update(sigma.tyinst)
        elif rng.random() < 0.15:
            pre['a'] = gen_ground(1)          # possibly conflicting seed
        before = snapshot(pre)
        key = (repr(pat), repr(target), repr(before[0]))
        evals += 1
        distinct.add(key)
        try:
            res = matcher.first_order_match(pat, target, pre)
            ok = True
        except matcher.MatchException:
            ok = False
        except Exception as e:
            # other exceptions: no answer
            continue
        if snapshot(pre) != before:
            violations.append({'function': 'logic.matcher.first_order_match', 'clause': 'input-inst-untouched',
                               'what': 'the caller\'s instantiation changed from %s to %s' % (before, snapshot(pre)),
                               'pattern': repr(pat), 'target': repr(target)})
        if ok:
            stats['matched'] += 1
            for k2, v in before[0].items():
                if k2 not in res or res[k2] != v:
                    violations.append({'function': 'logic.matcher.first_order_match', 'clause': 'extends',
                                       'what': 'binding %s of the given instantiation was altered' % k2,
                                       'pattern': repr(pat), 'target': repr(target)})
            try:
                got = eta_norm(pat.subst_norm(res).beta_norm())
                want = eta_norm(target.beta_norm())
                if got != want:
                    violations.append({'function': 'logic.matcher.first_order_match', 'clause': 'instantiates',
                                       'what': 'pattern instantiated with the result gives %r, target is %r' % (got, want),
                                       'pattern': repr(pat), 'target': repr(target), 'result': repr(dict(res))})
            except Exception as e:
                violations.append({'function': 'logic.matcher.first_order_match', 'clause': 'instantiates',
                                   'what': 'applying the result raised %s: %s' % (type(e).__name__, e),
                                   'pattern': repr(pat), 'target': repr(target), 'result': repr(dict(res))})
        else:
            stats['failed'] += 1
            conflicting_seed = any(k2 in sigma and sigma[k2] != v for k2, v in before[0].items()) \
                if target_is_instance else True
            if fo and target_is_instance and not conflicting_seed:
                violations.append({'function': 'logic.matcher.first_order_match', 'clause': 'fo-complete',
                                   'what': 'first-order pattern does not match its own instance',
                                   'pattern': repr(pat), 'target': repr(target), 'seed': repr(before[0])})
        if len(samples) < 5 and ok:
            samples.append({'pattern': repr(pat), 'target': repr(target), 'result': repr(dict(res))})
    # ---- heads applied to several non-pattern arguments (heuristic branch), and lists of pattern / target pairs with
    # a pre-seeded instantiation (first_order_match_list postpones non-pattern applications)
    sH = SVar('H', TFun(N, N, N))
    sK = SVar('K', TFun(N, N, N, N))
    g3 = Const('g3', TFun(N, N, N, N))
    sc = SVar('c', N)
    for it in range(300 if tier == 'quick' else 5000):
        k = rng.random()
        if k < 0.5:
            # ?H s t against g s' t' with ground arguments
            args_p = [rng.choice([gen_ground(1), f(sa), sa]) for _ in range(2)]
            pat = sH(*args_p) if rng.random() < 0.7 else sK(*(args_p + [gen_ground(1)]))
            target = g(gen_ground(1), gen_ground(1)) if pat.head == sH else g3(gen_ground(1), gen_ground(1), gen_ground(1))
            if rng.random() < 0.5:
                # make the target an instance of the pattern where the head is instantiated by the constant
                sig_ = Inst()
                sig_['a'] = gen_ground(1)
                sig_['H'] = g
                sig_['K'] = g3
                try:
                    target = pat.subst_norm(sig_)
                except Exception:
                    continue
            if rng.random() < 0.3:
                pat, target = Lambda(x, pat), Lambda(x, target)
            pats, ts = [pat], [target]
        else:
            # a list whose first pattern is a non-pattern application ?F (?a + c0-like) fixed by later pairs
            inner = g(sa, c0) if rng.random() < 0.5 else f(sa)
            ga = gen_ground(1)
            pats = [sF(inner), sa]
            img = rng.choice([f, Lambda(x, g(x, c1))])
            ts = [img(inner.subst_norm(Inst(a=ga))).beta_norm() if img is not f else f(inner.subst_norm(Inst(a=ga))), ga]
            if rng.random() < 0.3:
                pats.append(sb)
                ts.append(gen_ground(1))
        pre = Inst()
        r_ = rng.random()
        if r_ < 0.35:
            pre['c'] = gen_ground(1)             # an unrelated entry that must survive
        elif r_ < 0.5:
            pre['a'] = gen_ground(1)             # possibly conflicting
        elif r_ < 0.6:
            pre.tyinst['zz'] = N
        before = snapshot(pre)
        evals += 1
        distinct.add(('list', repr(pats), repr(ts), repr(before[0])))
        try:
            res = matcher.first_order_match_list(pats, ts, pre) if len(pats) > 1 or rng.random() < 0.5 else \
                matcher.first_order_match(pats[0], ts[0], pre)
            ok = True
        except matcher.MatchException:
            ok = False
        except Exception:
            continue
        if snapshot(pre) != before:
            violations.append({'function': 'logic.matcher.first_order_match_list', 'clause': 'input-inst-untouched',
                               'what': 'the caller\'s instantiation changed from %s to %s' % (before, snapshot(pre)),
                               'pattern': repr(pats), 'target': repr(ts)})
        if not ok:
            stats['failed'] += 1
            continue
        stats['matched'] += 1
        for k2, v in before[0].items():
            if k2 not in res or res[k2] != v:
                violations.append({'function': 'logic.matcher.first_order_match_list', 'clause': 'extends',
                                   'what': 'binding %s := %r of the given instantiation was lost or altered (result %r)' % (
                                       k2, v, dict(res)), 'pattern': repr(pats), 'target': repr(ts)})
        for k2, v in before[1].items():
            if k2 not in res.tyinst or res.tyinst[k2] != v:
                violations.append({'function': 'logic.matcher.first_order_match_list', 'clause': 'extends',
                                   'what': 'type binding %s of the given instantiation was lost' % k2,
                                   'pattern': repr(pats), 'target': repr(ts)})
        for p_, t_ in zip(pats, ts):
            try:
                got = eta_norm(p_.subst_norm(res).beta_norm())
                want = eta_norm(t_.beta_norm())
                if got != want:
                    violations.append({'function': 'logic.matcher.first_order_match_list', 'clause': 'instantiates',
                                       'what': 'pattern instantiated with the result gives %r, target is %r' % (got, want),
                                       'pattern': repr(pats), 'target': repr(ts), 'result': repr(dict(res))})
            except Exception as e:
                violations.append({'function': 'logic.matcher.first_order_match_list', 'clause': 'instantiates',
                                   'what': 'applying the result raised %s: %s' % (type(e).__name__, e),
                                   'pattern': repr(pats), 'target': repr(ts), 'result': repr(dict(res))})
    seen = set()
    uniq = []
    for v in violations:
        k = (v['clause'], v['what'][:40])
        if k not in seen:
            seen.add(k)
            uniq.append(v)
    return {'name': 'c09_matcher', 'rule': 'random pattern/target pairs: first-order patterns (depth <= 3, repeated '
            'svars), 5 higher-order shapes (Miller under binders, non-pattern application, polymorphic) and binder '
            'patterns against abstractions with clashing free names / nested bound occurrences, targets = '
            'instances by generated instantiations (60%) or unrelated, 30% pre-seeded; non-trivial = distinct '
            '(pattern, target, seed)', 'evaluations': evals, 'distinct_nontrivial': len(distinct), 'stats': stats,
            'samples': samples, 'violations': uniq[:12], 'n_violations': len(uniq), 'all_violations': len(violations),
            'secs': round(time.time() - t0, 1)}


if __name__ == '__main__':
    import json
    r = run(sys.argv[1] if len(sys.argv) > 1 else 'quick', int(sys.argv[2]) if len(sys.argv) > 2 else 0)
    print(json.dumps({k: v for k, v in r.items() if k != 'samples'}, indent=1, default=str)[:5000])
