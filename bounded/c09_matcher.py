"""Bounded stand-in for C09 (labelled bounded, never counted as proved).

Run-time contract on the REAL logic.matcher.first_order_match / first_order_match_list:
  (a) success => pat.subst_norm(result) equals the target up to beta-eta;
  (b) the result extends (never alters) the instantiation passed in, and the caller's Inst object is
      left exactly as it was;
  (c) completeness for first-order patterns: if the target IS an instance of the pattern (built by
      applying a generated instantiation) then matching succeeds.
Inputs: first-order patterns, Miller patterns under binders, repeated schematic variables, type-polymorphic
patterns, non-pattern applications, pre-seeded instantiations; targets = instances and unrelated terms."""
import copy
import os
import random
import sys
import time


def eta_norm(t):
    from kernel.term import Comb, Abs, Bound
    if t.is_comb():
        return Comb(eta_norm(t.fun), eta_norm(t.arg))
    if t.is_abs():
        b = eta_norm(t.body)
        if b.is_comb() and b.arg.is_bound() and b.arg.n == 0 and not _mentions0(b.fun, 0):
            return _lower(b.fun, 0)
        return Abs(t.var_name, t.var_T, b)
    return t


def _mentions0(t, k):
    if t.is_bound():
        return t.n == k
    if t.is_comb():
        return _mentions0(t.fun, k) or _mentions0(t.arg, k)
    if t.is_abs():
        return _mentions0(t.body, k + 1)
    return False


def _lower(t, k):
    from kernel.term import Comb, Abs, Bound
    if t.is_bound():
        return Bound(t.n - 1) if t.n > k else t
    if t.is_comb():
        return Comb(_lower(t.fun, k), _lower(t.arg, k))
    if t.is_abs():
        return Abs(t.var_name, t.var_T, _lower(t.body, k + 1))
    return t


def snapshot(inst):
    return (dict(inst), dict(inst.tyinst), dict(inst.var_inst), dict(inst.abs_name_inst))


def run(tier='quick', seed=0):
    t0 = time.time()
    if os.environ.get('HOLPY_REPO', '/repo') not in sys.path:
        sys.path.insert(0, os.environ.get('HOLPY_REPO', '/repo'))
    from logic import basic
    basic.load_theory('logic_base')
    from kernel.type import STVar, TVar, TFun, BoolType, TConst
    from kernel.term import SVar, Var, Const, Comb, Abs, Bound, Inst, Lambda, Eq, Implies
    from logic import matcher
    rng = random.Random(seed)
    N = TConst('nat')
    Ta = STVar('a')
    violations = []
    evals = 0
    distinct = set()
    samples = []
    stats = {'matched': 0, 'failed': 0}
    # building blocks
    x, y = Var('x', N), Var('y', N)
    f = Const('f', TFun(N, N))
    g = Const('g', TFun(N, N, N))
    P = Const('P', TFun(N, BoolType))
    c0, c1 = Const('c0', N), Const('c1', N)
    sa, sb = SVar('a', N), SVar('b', N)
    sF = SVar('F', TFun(N, N))
    sG = SVar('G', TFun(N, N, N))
    sp = SVar('p', Ta)          # polymorphic
    eqT = lambda T: Const('equals', TFun(T, T, BoolType))

    def gen_ground(d):
        k = rng.random()
        if d <= 0 or k < 0.35:
            return rng.choice([x, y, c0, c1])
        if k < 0.65:
            return f(gen_ground(d - 1))
        return g(gen_ground(d - 1), gen_ground(d - 1))

    def gen_fo_pat(d):
        k = rng.random()
        if d <= 0 or k < 0.4:
            return rng.choice([sa, sb, sa, x, c0])
        if k < 0.7:
            return f(gen_fo_pat(d - 1))
        return g(gen_fo_pat(d - 1), gen_fo_pat(d - 1))

    def gen_ho_pat():
        k = rng.random()
        if k < 0.3:
            # Miller pattern under a binder: %u. ?F u
            return Lambda(x, g(sF(x), sa))
        if k < 0.5:
            return Lambda(x, Lambda(y, sG(x, y)))
        if k < 0.7:
            return Eq(sF(sa), sb)            # non-pattern application (heuristic branch)
        if k < 0.85:
            return Lambda(x, sF(f(x)))       # argument is not a bound variable
        return eqT(Ta)(sp, sp)               # type-polymorphic, repeated svar

    def apply_inst(pat, inst):
        return pat.subst_norm(inst)

    def gen_inst(pat):
        inst = Inst()
        for v in pat.get_svars():
            if v.name in ('a', 'b'):
                inst[v.name] = gen_ground(2)
            elif v.name == 'F':
                inst[v.name] = rng.choice([f, Lambda(x, g(x, c0)), Lambda(x, c1), Lambda(x, x)])
            elif v.name == 'G':
                inst[v.name] = rng.choice([g, Lambda(x, Lambda(y, g(y, x))), Lambda(x, Lambda(y, f(x)))])
            elif v.name == 'p':
                inst.tyinst['a'] = N
                inst[v.name] = gen_ground(1)
        return inst

    zz = Var('zz_', N)

    def gen_body(d):
        """body of an abstraction: the bound variable (placeholder zz_), free variables x, y, constants"""
        k = rng.random()
        if d <= 0 or k < 0.35:
            return rng.choice([zz, zz, x, y, c0])
        if k < 0.65:
            return f(gen_body(d - 1))
        return g(gen_body(d - 1), gen_body(d - 1))

    def gen_binder_case():
        """patterns with a binder against abstractions whose bodies have free variables named like binders and
        repeated / nested occurrences of the bound variable"""
        pn, tn = rng.choice(['x', 'y', 'u']), rng.choice(['x', 'y', 'u'])
        k = rng.random()
        if k < 0.5:
            pat = Abs(pn, N, sF(Bound(0)))
            target = Abs(tn, N, gen_body(rng.choice([1, 2, 3])).abstract_over(zz))
        elif k < 0.7:
            pat = Abs(pn, N, g(sF(Bound(0)), sa))
            target = Abs(tn, N, g(gen_body(2), gen_ground(1)).abstract_over(zz))
        elif k < 0.85:
            allT = Const('all', TFun(TFun(N, BoolType), BoolType))
            sP = SVar('P', TFun(N, BoolType))
            pat = allT(Abs(pn, N, sP(Bound(0))))
            target = allT(Abs(tn, N, P(gen_body(2)).abstract_over(zz)))
        else:
            pat = Abs(pn, N, Abs('v', N, sG(Bound(1), Bound(0))))
            zz2 = Var('zz2_', N)
            b = g(gen_body(1), rng.choice([zz2, f(zz2), x])).abstract_over(zz2)
            target = Abs(tn, N, Abs(rng.choice(['v', 'x']), N, b).abstract_over(zz))
        return pat, target

    n = 1500 if tier == 'quick' else 25000
    for it in range(n):
        fo = rng.random() < 0.45
        binder_case = (not fo) and rng.random() < 0.45
        pat = gen_fo_pat(rng.choice([1, 2, 3])) if fo else gen_ho_pat()
        target_is_instance = rng.random() < 0.6
        if binder_case:
            target_is_instance = False
        try:
            if binder_case:
                pat, target = gen_binder_case()
            elif target_is_instance:
                sigma = gen_inst(pat)
                target = apply_inst(pat, sigma)
            else:
                target = gen_ground(3) if fo else rng.choice(
                    [Lambda(x, g(f(x), c0)), Lambda(x, Lambda(y, g(y, x))), Eq(f(c0), c1), Eq(c0, c0), gen_ground(2)])
        except Exception:
            continue
        pre = Inst()
        if rng.random() < 0.3 and target_is_instance:
            # pre-seeded with part of the generating instantiation
            for k2 in list(sigma.keys())[:1]:
                pre[k2] = sigma[k2]
            pre.tyinst.update(sigma.tyinst)
        elif rng.random() < 0.15:
            pre['a'] = gen_ground(1)          # possibly conflicting seed
        before = snapshot(pre)
        key = (repr(pat), repr(target), repr(before[0]))
        evals += 1
        distinct.add(key)
        try:
            res = matcher.first_order_match(pat, target, pre)
            ok = True
        except matcher.MatchException:
            ok = False
        except Exception as e:
            # other exceptions: no answer
            continue
        if snapshot(pre) != before:
            violations.append({'function': 'logic.matcher.first_order_match', 'clause': 'input-inst-untouched',
                               'what': 'the caller\'s instantiation changed from %s to %s' % (before, snapshot(pre)),
                               'pattern': repr(pat), 'target': repr(target)})
        if ok:
            stats['matched'] += 1
            for k2, v in before[0].items():
                if k2 not in res or res[k2] != v:
                    violations.append({'function': 'logic.matcher.first_order_match', 'clause': 'extends',
                                       'what': 'binding %s of the given instantiation was altered' % k2,
                                       'pattern': repr(pat), 'target': repr(target)})
            try:
                got = eta_norm(pat.subst_norm(res).beta_norm())
                want = eta_norm(target.beta_norm())
                if got != want:
                    violations.append({'function': 'logic.matcher.first_order_match', 'clause': 'instantiates',
                                       'what': 'pattern instantiated with the result gives %r, target is %r' % (got, want),
                                       'pattern': repr(pat), 'target': repr(target), 'result': repr(dict(res))})
            except Exception as e:
                violations.append({'function': 'logic.matcher.first_order_match', 'clause': 'instantiates',
                                   'what': 'applying the result raised %s: %s' % (type(e).__name__, e),
                                   'pattern': repr(pat), 'target': repr(target), 'result': repr(dict(res))})
        else:
            stats['failed'] += 1
            conflicting_seed = any(k2 in sigma and sigma[k2] != v for k2, v in before[0].items()) \
                if target_is_instance else True
            if fo and target_is_instance and not conflicting_seed:
                violations.append({'function': 'logic.matcher.first_order_match', 'clause': 'fo-complete',
                                   'what': 'first-order pattern does not match its own instance',
                                   'pattern': repr(pat), 'target': repr(target), 'seed': repr(before[0])})
        if len(samples) < 5 and ok:
            samples.append({'pattern': repr(pat), 'target': repr(target), 'result': repr(dict(res))})
    seen = set()
    uniq = []
    for v in violations:
        k = (v['clause'], v['what'][:40])
        if k not in seen:
            seen.add(k)
            uniq.append(v)
    return {'name': 'c09_matcher', 'rule': 'random pattern/target pairs: first-order patterns (depth <= 3, repeated '
            'svars), 5 higher-order shapes (Miller under binders, non-pattern application, polymorphic) and binder '
            'patterns against abstractions with clashing free names / nested bound occurrences, targets = '
            'instances by generated instantiations (60%) or unrelated, 30% pre-seeded; non-trivial = distinct '
            '(pattern, target, seed)', 'evaluations': evals, 'distinct_nontrivial': len(distinct), 'stats': stats,
            'samples': samples, 'violations': uniq[:12], 'n_violations': len(uniq), 'all_violations': len(violations),
            'secs': round(time.time() - t0, 1)}


if __name__ == '__main__':
    import json
    r = run(sys.argv[1] if len(sys.argv) > 1 else 'quick', int(sys.argv[2]) if len(sys.argv) > 2 else 0)
    print(json.dumps({k: v for k, v in r.items() if k != 'samples'}, indent=1, default=str)[:5000])
