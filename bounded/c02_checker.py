"""Bounded stand-in for the checker-level part of C02 (labelled bounded, never counted as proved).

Contract checked at run time on the REAL kernel.theory.check_proof / Theory.checked_extend:
  (a) accepted with no_gaps=True  ==>  every justified step's sequent, and the returned one, is a
      propositional consequence (truth table over the atoms) and no `sorry` occurs at any depth;
  (b) with gaps allowed the reported gaps are exactly the placeholders present;
  (c) checked_extend installs a theorem as proved only if the supplied proof is accepted gap-free and
      proves the stated theorem (semantic oracle: the installed statement is a tautology).
Inputs: exhaustive small proof objects (identifiers disagreeing with positions, forward / self /
into-closed-block citations, stated sequents stronger than derived, empty-rule lines, placeholders at
depth) plus seeded random mutations of correct proofs."""
import os
import copy
import itertools
import random
import sys
import time


def _setup():
    if os.environ.get('HOLPY_REPO', '/repo') not in sys.path:
        sys.path.insert(0, os.environ.get('HOLPY_REPO', '/repo'))
    from logic import basic
    basic.load_theory('logic_base')


def atoms():
    from kernel.term import Var
    from kernel.type import BoolType
    return Var('A', BoolType), Var('B', BoolType)


def tval(t, v):
    """Truth value of a propositional term under valuation v (dict name->bool); None if not propositional."""
    if t.is_var():
        return v.get(t.name)
    if t.is_const('true'):
        return True
    if t.is_const('false'):
        return False
    if t.is_implies():
        a, b = tval(t.arg1, v), tval(t.arg, v)
        return None if a is None or b is None else ((not a) or b)
    if t.is_conj():
        a, b = tval(t.arg1, v), tval(t.arg, v)
        return None if a is None or b is None else (a and b)
    if t.is_disj():
        a, b = tval(t.arg1, v), tval(t.arg, v)
        return None if a is None or b is None else (a or b)
    if t.is_not():
        a = tval(t.arg, v)
        return None if a is None else (not a)
    if t.is_equals():
        a, b = tval(t.arg1, v), tval(t.arg, v)
        return None if a is None or b is None else (a == b)
    return None


def valid_sequent(th):
    """True / False / None(not propositional)."""
    for va, vb in itertools.product([False, True], repeat=2):
        v = {'A': va, 'B': vb}
        hs = [tval(h, v) for h in th.hyps]
        p = tval(th.prop, v)
        if p is None or any(h is None for h in hs):
            return None
        if all(hs) and not p:
            return False
    return True


def all_items(prf):
    for it in prf.items:
        yield it
        if it.subproof is not None:
            for s in all_items(it.subproof):
                yield s


def own_sorrys(prf):
    """placeholders the checker visits: it descends into the sub-proof of a line only if the line's rule is
    'subproof' (a mutated line 'sorry' that still carries a sub-proof is one placeholder, its body is never read)"""
    res = []

    def walk(q):
        for it in q.items:
            if it.rule == 'sorry':
                res.append(it.th)
            elif it.rule == 'subproof' and it.subproof is not None:
                walk(it.subproof)
    walk(prf)
    return res


def show(prf):
    return [(str(it.id), it.rule, str(it.args) if it.args is not None else None, [str(p) for p in it.prevs],
             str(it.th) if it.th is not None else None) for it in all_items(prf)]


def mk_item(id, rule, args=None, prevs=None, th=None, sub=None):
    from kernel.proof import ProofItem, Proof
    it = ProofItem(id, rule, args=args, prevs=prevs, th=th)
    if sub is not None:
        it.subproof = Proof()
        it.subproof.items = sub
    return it


def gen_exhaustive():
    """All proofs of 1..2 top-level lines over a template alphabet (ids may disagree with positions)."""
    from kernel.thm import Thm
    from kernel.term import Implies, false
    from kernel.type import TyInst
    from kernel.proof import Proof
    A, B = atoms()
    ths = [None, Thm(false), Thm(A), Thm(Implies(A, A)), Thm(A, A), Thm(B, A)]
    ids = [0, 1, 2, (0, 0), -1]
    prevsets = [[], [0], [1], [-1], [(0, 0)], [0, 0]]
    rules = [('assume', A), ('implies_intr', A), ('implies_elim', None), ('subst_type', TyInst()), ('sorry', None),
             ('', None),
             # names that are neither the empty rule nor a registered rule: never a justification
             (' ', None), ('no_such_rule', None)]
    templates = []
    for (rule, args), id_, prevs, th in itertools.product(rules, ids, prevsets, ths):
        if rule in ('assume', '', 'sorry', ' ', 'no_such_rule') and prevs:
            continue
        if rule == 'sorry' and th is None:
            continue
        if rule == 'implies_intr' and len(prevs) != 1:
            continue
        if rule == 'subst_type' and len(prevs) != 1:
            continue
        if rule == 'implies_elim' and len(prevs) != 2:
            continue
        templates.append((id_, rule, args, prevs, th))
    for t in templates:
        p = Proof()
        p.items = [mk_item(t[0], t[1], args=t[2], prevs=t[3], th=t[4])]
        yield p
    for t1, t2 in itertools.product(templates, repeat=2):
        p = Proof()
        p.items = [mk_item(t1[0], t1[1], args=t1[2], prevs=t1[3], th=t1[4]),
                   mk_item(t2[0], t2[1], args=t2[2], prevs=t2[3], th=t2[4])]
        yield p


def gen_circular(tier):
    """Proof objects in which EVERY line states `|- A` (an atom: not valid) and is justified by `subst_type {}` from
    one citation, or is a block (`subproof`) whose only line is such a step.  No such object is well-founded, so none
    may be accepted, whatever the identifiers are: identifiers that disagree with positions (negative components count
    from the end when the item is fetched), blocks carrying such identifiers, citations forward, into and out of blocks."""
    from kernel.thm import Thm
    from kernel.type import TyInst
    from kernel.proof import Proof
    A, B = atoms()
    if tier == 'quick':
        tops, inner_ids = [0, 1, -1], [(0, 0), (1, 0), (-1, 0)]
    else:
        tops, inner_ids = [0, 1, 2, -1, -2], [(0, 0), (1, 0), (2, 0), (-1, 0), (-2, 0), (0, -1)]
    pool = tops + inner_ids

    def step(id_, prev):
        return lambda: mk_item(id_, 'subst_type', args=TyInst(), prevs=[prev], th=Thm(A))

    def block(id_, iid, prev):
        return lambda: mk_item(id_, 'subproof', th=Thm(A), sub=[step(iid, prev)()])

    templates = [step(i, c) for i in tops for c in pool] + \
                [block(i, j, c) for i in tops for j in inner_ids for c in pool]
    for n in ((1, 2) if tier == 'quick' else (1, 2, 3)):
        for ts in itertools.product(templates, repeat=n):
            if n == 3 and sum(1 for _ in ts) and hash(str([id(t) for t in ts])) % 40 != 0:
                continue       # thorough: a fortieth of the 3-line objects
            p = Proof()
            p.items = [t() for t in ts]
            yield p


def base_proofs():
    """Correct proofs, some with blocks."""
    from kernel.thm import Thm
    from kernel.term import Implies
    from kernel.proof import Proof
    A, B = atoms()
    out = []
    p = Proof()
    p.items = [mk_item(0, 'assume', args=A), mk_item(1, 'implies_intr', args=A, prevs=[0])]
    out.append(p)
    p = Proof()
    p.items = [mk_item(0, 'assume', args=A, th=Thm(A, A)),
               mk_item(1, 'implies_intr', args=B, prevs=[0], th=Thm(Implies(B, A), A)),
               mk_item(2, 'implies_intr', args=A, prevs=[1], th=Thm(Implies(A, Implies(B, A))))]
    out.append(p)
    p = Proof()
    p.items = [mk_item(0, 'assume', args=Implies(A, B)), mk_item(1, 'assume', args=A),
               mk_item(2, 'implies_elim', prevs=[0, 1]),
               mk_item(3, 'implies_intr', args=A, prevs=[2]),
               mk_item(4, 'implies_intr', args=Implies(A, B), prevs=[3])]
    out.append(p)
    # a block nested in a block
    p = Proof()
    p.items = [mk_item(0, 'subproof', th=Thm(Implies(B, Implies(A, A))), sub=[
        mk_item((0, 0), 'subproof', th=Thm(Implies(A, A)), sub=[
            mk_item((0, 0, 0), 'assume', args=A, th=Thm(A, A)),
            mk_item((0, 0, 1), 'implies_intr', args=A, prevs=[(0, 0, 0)], th=Thm(Implies(A, A)))]),
        mk_item((0, 1), 'implies_intr', args=B, prevs=[(0, 0)], th=Thm(Implies(B, Implies(A, A))))])]
    out.append(p)
    # block structured
    p = Proof()
    p.items = [mk_item(0, 'subproof', th=Thm(Implies(A, A)), sub=[
        mk_item((0, 0), 'assume', args=A, th=Thm(A, A)),
        mk_item((0, 1), 'implies_intr', args=A, prevs=[(0, 0)], th=Thm(Implies(A, A)))]),
        mk_item(1, 'implies_intr', args=B, prevs=[0], th=Thm(Implies(B, Implies(A, A))))]
    out.append(p)
    return out


def mutate(p, rng):
    from kernel.thm import Thm
    from kernel.term import Implies, false
    from kernel.proof import ItemID
    A, B = atoms()
    q = copy.copy(p)
    items = list(all_items(q))
    it = rng.choice(items)
    k = rng.randrange(9)
    if k == 0:
        it.th = rng.choice([Thm(false), Thm(A), Thm(B), Thm(Implies(A, B)), None])
    elif k == 1:
        it.id = ItemID(rng.choice([0, 1, 2, 3, (0, 0), (0, 1), (1, 0), -1]))
    elif k == 2 and it.prevs:
        j = rng.randrange(len(it.prevs))
        it.prevs = list(it.prevs)
        it.prevs[j] = ItemID(rng.choice([0, 1, 2, 3, 4, (0, 0), (0, 1), -1, -2]))
    elif k == 3:
        it.rule = rng.choice(['', '', ' ', '\t', 'no_such_rule', 'Sorry'])
    elif k == 4:
        it.rule = 'sorry'
        it.args = None
        it.prevs = []
        if it.th is None:
            it.th = Thm(rng.choice([A, false, Implies(A, A)]))
    elif k == 5 and it.prevs:
        it.prevs = list(reversed(it.prevs))
    elif k == 6:
        it.prevs = list(it.prevs) + [ItemID(rng.choice([0, 1, 2, (0, 0)]))]
    elif k == 7 and len(q.items) > 1:
        i = rng.randrange(len(q.items) - 1)
        q.items[i], q.items[i + 1] = q.items[i + 1], q.items[i]
    else:
        it.args = rng.choice([A, B, false])
    return q


def check_one(p, violations, stats):
    from kernel import theory
    from kernel.report import ProofReport
    before = show(p)
    # (a) gap-free acceptance
    q = copy.copy(p)
    try:
        res = theory.check_proof(q, no_gaps=True)
        accepted = True
    except Exception as e:
        accepted = False
    stats['evaluations'] += 1
    if accepted:
        stats['accepted'] += 1
        bad = None
        for it in all_items(q):
            if it.rule == 'sorry':
                bad = 'accepted with no_gaps=True although a placeholder is present: %s' % str(it.id)
            if it.rule not in ('',) and it.th is not None and valid_sequent(it.th) is False:
                bad = 'accepted step %s states the invalid sequent %s' % (it.id, it.th)
        if res is not None and valid_sequent(res) is False:
            bad = 'accepted proof returns the invalid sequent %s' % res
        if bad:
            violations.append({'function': 'kernel.theory.Theory.check_proof', 'clause': 'accepted=>justified',
                               'what': bad, 'proof': before})
    # (b) gaps allowed: report equals placeholders
    q = copy.copy(p)
    rpt = ProofReport()
    try:
        theory.check_proof(q, rpt, no_gaps=False)
        ok = True
    except Exception:
        ok = False
    stats['evaluations'] += 1
    if ok:
        want = sorted(str(t) for t in own_sorrys(q))
        got = sorted(str(t) for t in rpt.gaps)
        if want != got:
            violations.append({'function': 'kernel.theory.Theory.check_proof', 'clause': 'gaps==placeholders',
                               'what': 'reported gaps %s, placeholders present %s' % (got, want), 'proof': before})
    return accepted


def check_extend(violations, stats, rng, n_random):
    from kernel import theory, extension
    from kernel.thm import Thm
    from kernel.term import Implies, false
    from kernel.proof import Proof
    A, B = atoms()
    stated = [Thm(false), Thm(A), Thm(Implies(A, A)), Thm(Implies(A, Implies(B, A))), Thm(Implies(B, A))]
    proofs = base_proofs()
    sp = Proof()
    sp.items = [mk_item(0, 'sorry', th=Thm(false))]
    proofs.append(sp)
    sp = Proof()
    sp.items = [mk_item(0, 'sorry', th=Thm(Implies(A, A)))]
    proofs.append(sp)
    for i in range(n_random):
        proofs.append(mutate(rng.choice(base_proofs()), rng))
    # a proof that cites the very theorem it is meant to prove, and the state of the theory after a refusal
    for th in stated:
        old = theory.thy
        try:
            theory.thy = copy.copy(old)
            theory.thy.data = copy.deepcopy(old.data)
            sp = Proof()
            sp.items = [mk_item(0, 'theorem', args='verif_self_thm')]
            ext = extension.Theorem('verif_self_thm', th, prf=sp)
            try:
                rep = theory.thy.checked_extend([ext])
                refused = False
                as_axiom = any(nm == 'verif_self_thm' for nm, _ in rep.get_axioms())
            except Exception:
                refused, as_axiom = True, False
            stats['evaluations'] += 1
            installed = theory.thy.has_theorem('verif_self_thm')
            if installed and not as_axiom and not refused:
                violations.append({'function': 'kernel.theory.Theory.checked_extend', 'clause': 'proved=>proof shows it',
                                   'what': 'theorem %s installed as proved by a proof that cites the theorem itself' % th,
                                   'proof': show(sp)})
            if refused and installed:
                violations.append({'function': 'kernel.theory.Theory.checked_extend', 'clause': 'refused=>not installed',
                                   'what': 'extension with theorem %s was refused but the theorem is in the theory' % th,
                                   'proof': show(sp)})
        finally:
            theory.thy = old
    for th, prf in itertools.product(stated, proofs):
        old = theory.thy
        try:
            theory.thy = copy.copy(old)
            theory.thy.data = copy.deepcopy(old.data)
            ext = extension.Theorem('verif_tmp_thm', th, prf=copy.copy(prf))
            try:
                rep = theory.thy.checked_extend([ext])
                installed = theory.thy.has_theorem('verif_tmp_thm')
                as_axiom = any(nm == 'verif_tmp_thm' for nm, _ in rep.get_axioms())
            except Exception:
                installed, as_axiom = False, False
                if theory.thy.has_theorem('verif_tmp_thm'):
                    violations.append({'function': 'kernel.theory.Theory.checked_extend', 'clause': 'refused=>not installed',
                                       'what': 'extension with theorem %s was refused but the theorem is in the theory' % th,
                                       'proof': show(prf)})
            stats['evaluations'] += 1
            if installed and not as_axiom and valid_sequent(th) is False:
                violations.append({'function': 'kernel.theory.Theory.checked_extend', 'clause': 'proved=>proof shows it',
                                   'what': 'theorem %s installed as proved with proof %s' % (th, show(prf)),
                                   'proof': show(prf)})
            if installed and not as_axiom:
                # the proof must be acceptable gap-free and conclude the statement
                try:
                    r = theory.check_proof(copy.copy(prf), no_gaps=True)
                    okp = r.can_prove(th)
                except Exception:
                    okp = False
                if not okp:
                    violations.append({'function': 'kernel.theory.Theory.checked_extend',
                                       'clause': 'proved=>proof shows it',
                                       'what': 'theorem %s installed as proved although the proof is not an accepted '
                                               'gap-free proof of it' % th, 'proof': show(prf)})
        finally:
            theory.thy = old


def check_expansion(violations, stats):
    """Placeholders inside a macro EXPANSION (depth reached only through Macro.expand): a level-1 macro
    whose proof term contains a sorry is used at top level and inside a block, with and without report."""
    from kernel import theory
    from kernel.macro import Macro
    from kernel.proofterm import ProofTerm
    from kernel.report import ProofReport
    from kernel.term import Term, Implies
    from kernel.thm import Thm
    from kernel.proof import Proof
    A, B = atoms()
    if 'verif_sorry_macro' not in theory.global_macros:
        class verif_sorry_macro(Macro):
            def __init__(self):
                self.level = 1
                self.sig = Term
                self.limit = None

            def get_proof_term(self, args, pts):
                return ProofTerm.sorry(Thm(args))
        theory.global_macros['verif_sorry_macro'] = verif_sorry_macro()
    from kernel.term import false
    shapes = []
    p = Proof()
    p.items = [mk_item(0, 'verif_sorry_macro', args=false, th=Thm(false))]
    shapes.append(p)
    p = Proof()
    p.items = [mk_item(0, 'verif_sorry_macro', args=Implies(A, B))]
    shapes.append(p)
    p = Proof()
    p.items = [mk_item(0, 'subproof', th=Thm(false), sub=[mk_item((0, 0), 'verif_sorry_macro', args=false,
                                                                    th=Thm(false))])]
    shapes.append(p)
    for p in shapes:
        for with_rpt in (False, True):
            for compute_only in (False,):     # compute_only=True deliberately skips stated steps
                q = copy.copy(p)
                rpt = ProofReport() if with_rpt else None
                try:
                    theory.check_proof(q, rpt, no_gaps=True, compute_only=compute_only)
                    acc = True
                except Exception:
                    acc = False
                stats['evaluations'] += 1
                if acc:
                    violations.append({'function': 'kernel.theory.Theory.check_proof', 'clause': 'no-gaps-at-depth',
                                       'what': 'accepted with no_gaps=True (compute_only=%s) although the macro '
                                               'expansion contains a placeholder' % compute_only,
                                       'proof': show(p)})
        q = copy.copy(p)
        rpt = ProofReport()
        try:
            theory.check_proof(q, rpt, no_gaps=False)
            stats['evaluations'] += 1
            if len(rpt.gaps) != 1:
                violations.append({'function': 'kernel.theory.Theory.check_proof', 'clause': 'gaps==placeholders',
                                   'what': 'expansion placeholder not reported exactly once: %s' % rpt.gaps,
                                   'proof': show(p)})
        except Exception as e:
            violations.append({'function': 'kernel.theory.Theory.check_proof', 'clause': 'harness-sanity',
                               'what': 'macro with a gap rejected although gaps are allowed: %r' % e, 'proof': show(p)})


def run(tier='quick', seed=0):
    t0 = time.time()
    _setup()
    rng = random.Random(seed)
    violations = []
    stats = {'evaluations': 0, 'accepted': 0}
    distinct = set()
    samples = []
    n = 0
    for p in gen_exhaustive():
        n += 1
        if tier == 'quick' and n % 4 != (seed % 4) and n > 600:
            continue      # quick: all 1-line proofs, a quarter of the 2-line ones (rotating with the seed)
        acc = check_one(p, violations, stats)
        distinct.add(str(show(p)))
        if acc and len(samples) < 3:
            samples.append({'accepted': show(p)})
    n_circ = 0
    for p in gen_circular(tier):
        n_circ += 1
        acc = check_one(p, violations, stats)
        distinct.add(str(show(p)))
        if acc:
            # check_one reports it through the truth-table oracle (`|- A` is not valid); recorded here as well
            violations.append({'function': 'kernel.theory.Theory.check_proof', 'clause': 'accepted=>well-founded',
                               'what': 'a proof object whose every line cites another line is accepted', 'proof': show(p)})
    stats['circular'] = n_circ
    bases = base_proofs()
    for b in bases:
        acc = check_one(b, violations, stats)
        if not acc:
            violations.append({'function': 'kernel.theory.Theory.check_proof', 'clause': 'harness-sanity',
                               'what': 'a correct base proof is rejected', 'proof': show(b)})
    for i in range(400 if tier == 'quick' else 6000):
        q = rng.choice(bases)
        for _ in range(rng.choice([1, 1, 2])):
            q = mutate(q, rng)
        check_one(q, violations, stats)
        distinct.add(str(show(q)))
        if len(samples) < 6:
            samples.append({'mutant': show(q)})
    # directed: the last line of every block (top level and nested) replaced by a line without a rule that merely
    # STATES a sequent (false, an atom, or what the block really proves); such a line is never checked, so its
    # statement must not become the result of the block
    from kernel.thm import Thm as _Thm
    from kernel.term import false as _false
    A_, B_ = atoms()
    for b in bases:
        blocks = [b] + [it.subproof for it in all_items(b) if it.subproof is not None]
        for bi in range(len(blocks)):
            for stated in (_Thm(_false), _Thm(A_), None):
                q = copy.copy(b)
                qblocks = [q] + [it.subproof for it in all_items(q) if it.subproof is not None]
                last = qblocks[bi].items[-1]
                last.rule = ''
                last.args = None
                last.prevs = []
                if stated is not None:
                    last.th = stated
                    # the enclosing lines state what they would derive from it
                    for it in all_items(q):
                        if it.subproof is qblocks[bi]:
                            it.th = stated
                check_one(q, violations, stats)
                distinct.add(str(show(q)))
    check_extend(violations, stats, rng, 10 if tier == 'quick' else 80)
    check_expansion(violations, stats)
    # de-duplicate violations by message
    seen = set()
    uniq = []
    for v in violations:
        k = (v['function'], v['clause'], v['what'][:80])
        if k not in seen:
            seen.add(k)
            uniq.append(v)
    return {'name': 'c02_checker', 'rule': 'exhaustive proofs of 1 line and (quick: a rotating quarter of) 2 lines over '
            '6 rules x 5 identifiers x 6 citation lists x 6 stated sequents; seeded mutations of 4 correct proofs '
            '(one with a block); all 1- and 2-line objects whose lines are `|- A by subst_type from <one citation>` or blocks of one such line, identifiers and citations from a pool with negative components (%d objects: none is well-founded); checked_extend' % stats.get('circular', 0) + '  over 5 statements x proofs; oracle = truth table over atoms A, B; '
            'non-trivial = distinct proof objects', 'evaluations': stats['evaluations'],
            'distinct_nontrivial': len(distinct), 'accepted': stats['accepted'], 'samples': samples,
            'violations': uniq[:12], 'n_violations': len(uniq), 'secs': round(time.time() - t0, 1)}


if __name__ == '__main__':
    import json
    r = run(sys.argv[1] if len(sys.argv) > 1 else 'quick', 0)
    print(json.dumps({k: v for k, v in r.items() if k not in ('samples',)}, indent=1, default=str)[:6000])
