"""Bounded stand-in for C17 (labelled bounded, never counted as proved).

Run-time contract on the REAL prover.congc.CongClosure / CongClosureHOL:
  after any sequence of merges, test(a, b) holds exactly when a = b follows from the merged equations by
  reflexivity, symmetry, transitivity and congruence (oracle: naive fix-point closure over the flattened
  equations); the answers do not depend on the order of the merges; every explanation uses only merged
  equations (and congruences between merged application equations) and connects the two constants; the HOL
  wrapper's explain gives a checker-accepted theorem of the equality whose hypotheses are merged equations."""
import os
import itertools
import random
import sys
import time


def naive_closure(consts, const_eqs, app_eqs):
    parent = {c: c for c in consts}

    def find(x):
        while parent[x] != x:
            x = parent[x]
        return x

    def union(a, b):
        ra, rb = find(a), find(b)
        if ra != rb:
            parent[ra] = rb
            return True
        return False
    for a, b in const_eqs:
        union(a, b)
    changed = True
    while changed:
        changed = False
        for ((a1, a2), t), ((b1, b2), u) in itertools.combinations(app_eqs, 2):
            if find(a1) == find(b1) and find(a2) == find(b2) and find(t) != find(u):
                union(t, u)
                changed = True
    return find


def run(tier='quick', seed=0):
    t0 = time.time()
    if os.environ.get('HOLPY_REPO', '/repo') not in sys.path:
        sys.path.insert(0, os.environ.get('HOLPY_REPO', '/repo'))
    from prover import congc
    rng = random.Random(seed)
    violations = []
    evals = 0
    distinct = set()
    samples = []
    no_answer = []

    def check_eqs(eqs, nconst):
        nonlocal evals
        consts = ['c%d' % i for i in range(nconst)]
        const_eqs = [(a, b) for (a, b) in eqs if isinstance(a, str)]
        app_eqs = [(a, b) for (a, b) in eqs if not isinstance(a, str)]
        find = naive_closure(consts, const_eqs, app_eqs)
        orders = list(itertools.permutations(eqs)) if len(eqs) <= 4 else [eqs, list(reversed(eqs))] + [
            rng.sample(eqs, len(eqs)) for _ in range(3)]
        for order in orders:
            evals += 1
            cc = congc.CongClosure()
            for c in consts:
                cc.add_var(c)
            try:
                for i, (a, b) in enumerate(order):
                    cc.merge(a, b)
                    if rng.random() < 0.3:          # interleaved queries must not disturb the structure
                        cc.test(rng.choice(consts), rng.choice(consts))
            except Exception as e:
                violations.append({'function': 'prover.congc.CongClosure.merge', 'clause': 'no-crash',
                                   'what': 'merge raised %s: %s' % (type(e).__name__, e), 'equations': repr(order)})
                continue
            key = repr(sorted(map(repr, eqs)))
            distinct.add(key)
            for x, y in itertools.combinations(consts, 2):
                want = find(x) == find(y)
                got = cc.test(x, y)
                if got != want:
                    violations.append({'function': 'prover.congc.CongClosure.test', 'clause': 'exactly-entailed',
                                       'what': 'test(%s, %s) = %s, but the equality is %sentailed' % (
                                           x, y, got, '' if want else 'not '), 'equations': repr(list(order))})
                if got:
                    try:
                        ex = cc.explain(x, y)
                    except Exception as e:
                        violations.append({'function': 'prover.congc.CongClosure.explain', 'clause': 'explains',
                                           'what': 'explain(%s, %s) raised %s: %s' % (x, y, type(e).__name__, e),
                                           'equations': repr(list(order))})
                        continue
                    # the equations named by the explanation must entail the queried equality on their own
                    used_c, used_a = [], []
                    for (p, q), path in ex.items():
                        for eq in path:
                            if eq[0] == congc.EQ_CONST:
                                used_c.append((eq[1], eq[2]))
                            else:
                                used_a.extend([eq[1], eq[2]])
                    try:
                        find_ex = naive_closure(consts, used_c, [e for e in used_a if e in app_eqs])
                        if find_ex(x) != find_ex(y):
                            violations.append({'function': 'prover.congc.CongClosure.explain', 'clause': 'sufficient',
                                               'what': 'the equations of explain(%s, %s) = %s do not entail %s = %s' % (
                                                   x, y, sorted(set(map(repr, used_c + used_a))), x, y),
                                               'equations': repr(list(order))})
                    except Exception:
                        pass
                    for (p, q), path in ex.items():
                        for eq in path:
                            if eq[0] == congc.EQ_CONST:
                                if (eq[1], eq[2]) not in const_eqs and (eq[2], eq[1]) not in const_eqs:
                                    violations.append({'function': 'prover.congc.CongClosure.explain',
                                                       'clause': 'only-merged-equations',
                                                       'what': 'explanation uses %s = %s, which was never merged' % (
                                                           eq[1], eq[2]), 'equations': repr(list(order))})
                            else:
                                _, e1, e2 = eq
                                if e1 not in app_eqs or e2 not in app_eqs:
                                    violations.append({'function': 'prover.congc.CongClosure.explain',
                                                       'clause': 'only-merged-equations',
                                                       'what': 'explanation uses a congruence between %s and %s, not both '
                                                               'merged' % (e1, e2), 'equations': repr(list(order))})
            if len(samples) < 3:
                samples.append({'equations': repr(list(order))})

    # exhaustive small: <= 4 constants, <= 3 equations, all merge orders
    consts = ['c0', 'c1', 'c2', 'c3']
    pool = [(a, b) for a, b in itertools.combinations(consts[:3], 2)] + \
           [((a, b), t) for a in consts[:2] for b in consts[:2] for t in consts[2:]]
    kmax = 3 if tier == 'quick' else 4
    for k in range(1, kmax + 1):
        combos = list(itertools.combinations(pool, k))
        if tier == 'quick' and len(combos) > 150:
            combos = rng.sample(combos, 150)
        for eqs in combos:
            check_eqs(list(eqs), 4)
    # random: up to 8 constants
    for it in range(120 if tier == 'quick' else 2000):
        nconst = rng.randint(3, 8)
        cs = ['c%d' % i for i in range(nconst)]
        eqs = []
        for _ in range(rng.randint(2, 8)):
            if rng.random() < 0.45:
                eqs.append((rng.choice(cs), rng.choice(cs)))
            else:
                eqs.append(((rng.choice(cs), rng.choice(cs)), rng.choice(cs)))
        check_eqs(eqs, nconst)

    # constant-only trees: 5-7 constants joined by a random spanning tree given in a random order and orientation
    # (deep proof-forest paths get reversed), plus a few redundant equations
    for it in range(150 if tier == 'quick' else 3000):
        nconst = rng.randint(5, 7)
        cs = ['c%d' % i for i in range(nconst)]
        perm = rng.sample(cs, nconst)
        eqs = []
        for i in range(1, nconst):
            j = rng.randrange(i) if rng.random() < 0.5 else i - 1       # chains and bushier trees
            eqs.append((perm[i], perm[j]) if rng.random() < 0.5 else (perm[j], perm[i]))
        if rng.random() < 0.4:
            eqs = eqs[:-1]                                               # two components
        rng.shuffle(eqs)
        for _ in range(rng.choice([0, 0, 1, 2])):
            eqs.append((rng.choice(cs), rng.choice(cs)))
        check_eqs(eqs, nconst)

    # applications whose two arguments lie in ONE class (f(a, a), f(a, b) with a = b merged before or after), with the
    # class then absorbed step by step into larger ones that carry applications of their own: use-list entries have to
    # survive every re-keying.  Own random stream; a fixed six-equation scenario in all its merge orders.
    rng2 = random.Random('%s/same-class-args' % seed)
    base = [(('c0', 'c0'), 'c5'), (('c3', 'c3'), 'c6'), ('c1', 'c3'), ('c2', 'c3'), ('c0', 'c4'), ('c4', 'c3')]
    perms = list(itertools.permutations(base))
    if tier == 'quick':
        perms = rng2.sample(perms, 120)
    saved_sample = rng.sample
    for order in perms:
        rng.sample = lambda xs, k, _o=list(order): list(_o)       # check_eqs draws its extra orders here: use ours
        try:
            check_eqs(list(order), 7)
        finally:
            rng.sample = saved_sample
    for it in range(150 if tier == 'quick' else 3000):
        nconst = rng2.randint(5, 8)
        cs = ['c%d' % i for i in range(nconst)]
        eqs = []
        for _ in range(rng2.randint(2, 3)):
            x = rng2.choice(cs)
            y = x if rng2.random() < 0.6 else rng2.choice(cs)
            eqs.append(((x, y), rng2.choice(cs)))
        for _ in range(rng2.randint(3, 6)):
            eqs.append((rng2.choice(cs), rng2.choice(cs)))
        rng2.shuffle(eqs)
        check_eqs(eqs, nconst)

    # HOL wrapper: explanation is a checker-accepted theorem with hypotheses among the merged equations
    try:
        from logic import basic
        basic.load_theory('logic_base')
        from kernel.type import TVar, TFun
        from kernel.term import Var, Eq
        from kernel import theory
        Ta = TVar('a')
        a, b, c, d = [Var(n, Ta) for n in 'abcd']
        f = Var('f', TFun(Ta, Ta))
        g = Var('g', TFun(Ta, Ta, Ta))
        terms = [a, b, c, d, f(a), f(b), f(c), g(a, b), g(c, d), f(f(a)), g(f(a), b)]
        for it in range(60 if tier == 'quick' else 800):
            evals += 1
            eqs = [(rng.choice(terms), rng.choice(terms)) for _ in range(rng.randint(1, 4))]
            if rng.random() < 0.4:
                # the same pair merged again the other way round (with or without a supplied proof term)
                u0, v0 = eqs[0]
                eqs.append((v0, u0))
            hol = congc.CongClosureHOL()
            from kernel.proofterm import ProofTerm as _PT
            for s, t in eqs:
                if rng.random() < 0.5 and s != t:
                    hol.merge(s, t, pt=_PT.assume(Eq(s, t)))       # a supplied proof of exactly s = t
                else:
                    hol.merge(s, t)
            for _ in range(4):
                s, t = rng.choice(terms), rng.choice(terms)
                if hol.test(s, t) and s != t:
                    try:
                        pt = hol.explain(s, t)
                    except Exception as e:
                        no_answer.append('%s on %r' % (type(e).__name__, (s, t)))    # nothing returned
                        continue
                    try:
                        th = theory.check_proof(pt.export())
                        merged = set(Eq(u, v) for u, v in eqs) | set(Eq(v, u) for u, v in eqs)
                        if th.prop != Eq(s, t) or not set(th.hyps) <= merged:
                            violations.append({'function': 'prover.congc.CongClosureHOL.explain', 'clause': 'hol-theorem',
                                               'what': 'explanation proves %s, expected %s from merged equations' % (
                                                   th, Eq(s, t)), 'equations': repr(eqs)})
                    except Exception as e:
                        violations.append({'function': 'prover.congc.CongClosureHOL.explain', 'clause': 'hol-theorem',
                                           'what': 'explain/check raised %s: %s' % (type(e).__name__, str(e)[:100]),
                                           'equations': repr(eqs), 'query': repr((s, t))})
    except ImportError:
        pass
    seen = set()
    uniq = []
    for v in violations:
        k = (v['function'], v['clause'], v['what'][:30])
        if k not in seen:
            seen.add(k)
            uniq.append(v)
    return {'name': 'c17_congc', 'rule': 'equation sets over 4 constants (constant equations and flattened application '
            'equations), <= 3 (thorough 4) equations, ALL merge orders, interleaved test calls; random sets over up to '
            '8 constants / 8 equations in 5 orders; HOL wrapper on curried terms up to depth 2; oracle = naive '
            'fix-point closure; non-trivial = distinct equation sets', 'evaluations': evals,
            'distinct_nontrivial': len(distinct), 'samples': samples, 'hol_explain_raised_not_counted': len(no_answer), 'violations': uniq[:12],
            'n_violations': len(uniq), 'all_violations': len(violations), 'secs': round(time.time() - t0, 1)}


if __name__ == '__main__':
    import json
    r = run(sys.argv[1] if len(sys.argv) > 1 else 'quick', int(sys.argv[2]) if len(sys.argv) > 2 else 0)
    print(json.dumps({k: v for k, v in r.items() if k != 'samples'}, indent=1, default=str)[:5000])
