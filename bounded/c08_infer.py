"""C08 bounded stand-in: run-time contract on syntax.infertype.type_infer over generated skeletons.

Generator: type-directed well-typed terms over theory `real` (overloaded arithmetic at nat/int/real, polymorphic
equality / lists / sets / quantifiers / function combinators, higher-order variables, nested binders), erased in
several ways; plus ill-typed skeletons (swapped arguments, self application, clashing uses of one variable,
occurs-check chains in several constraint orders).  Nothing here is a proof.
"""
import os
import random
import signal
import sys
import time


class _Timeout(Exception):
    pass


def _alarm(*a):
    raise _Timeout()


def run(tier='quick', seed=0):
    t0 = time.time()
    if os.environ.get('HOLPY_REPO', '/repo') not in sys.path:
        sys.path.insert(0, os.environ.get('HOLPY_REPO', '/repo'))
    from logic import basic, context
    basic.load_theory('real')
    from kernel import theory
    from kernel.type import STVar, TVar, TFun, BoolType, TConst, Type, TyInst, TypeMatchException
    from kernel.term import SVar, Var, Const, Comb, Abs, Bound, Term, TypeCheckException
    from syntax import infertype
    from syntax.infertype import TypeInferenceException
    rng = random.Random(seed)
    NAT, INT, REAL = TConst('nat'), TConst('int'), TConst('real')
    TA = TVar('a')
    TB = TVar('b')
    base_types = [NAT, INT, REAL, BoolType, TConst('list', NAT), TConst('set', NAT), TA, TConst('list', TA), TB,
                  TConst('list', TB)]
    fun_types = [TFun(NAT, NAT), TFun(NAT, BoolType), TFun(REAL, REAL), TFun(TA, TA), TFun(NAT, NAT, NAT),
                 TFun(TFun(NAT, NAT), NAT)]
    pool = base_types + fun_types
    CONSTS = ['equals', 'plus', 'times', 'minus', 'zero', 'one', 'of_nat', 'of_int', 'cons', 'nil', 'Some',
              'exists', 'all', 'less', 'less_eq', 'Suc', 'comp_fun', 'fun_upd', 'union', 'member', 'image',
              'collect', 'length', 'append', 'uminus', 'abs', 'max', 'conj', 'disj', 'neg', 'implies', 'The',
              'real_inverse', 'empty_set', 'true', 'false']
    sigs = {}
    for c in CONSTS:
        try:
            sigs[c] = theory.thy.get_term_sig(c, stvar=True)
        except theory.TheoryException:
            pass
    # declared variables: name -> type
    declared = {'x': NAT, 'y': NAT, 'i': INT, 'r': REAL, 'p': BoolType, 'xs': TConst('list', NAT),
                'S': TConst('set', NAT), 'a': TA, 'as': TConst('list', TA), 'f': TFun(NAT, NAT),
                'P': TFun(NAT, BoolType), 'g': TFun(REAL, REAL), 'h': TFun(TA, TA), 'k': TFun(NAT, NAT, NAT),
                'F': TFun(TFun(NAT, NAT), NAT), 'z': REAL, 'j': INT, 'q': BoolType,
                'b2': TB, 'bs': TConst('list', TB), 'k2': TFun(TA, TB), 'c2': TB}
    by_type = {}
    for nm, T in declared.items():
        by_type.setdefault(T, []).append(nm)

    def strip(T, k):
        args = []
        for _ in range(k):
            if not T.is_fun():
                return None
            args.append(T.domain_type())
            T = T.range_type()
        return args, T

    def fill(T, tyinst):
        for v in T.get_stvars():
            if v.name not in tyinst:
                tyinst[v.name] = rng.choice([NAT, INT, REAL, BoolType, TA, TB, TConst('list', NAT)])
        return T.subst(tyinst)

    def gen(T, d, bd):
        """A term of type T with loose bound variables typed by bd (innermost first)."""
        opts = []
        for nm in by_type.get(T, []):
            opts.append(('var', nm))
        for n, BT in enumerate(bd):
            if BT == T:
                opts.append(('bound', n))
                opts.append(('bound', n))
        if d > 0:
            for c, sg in sigs.items():
                ar = 0
                S = sg
                while True:
                    try:
                        ti = S.match(T)
                        opts.append(('const', c, ar, ti))
                    except TypeMatchException:
                        pass
                    if not S.is_fun():
                        break
                    S = S.range_type()
                    ar += 1
            if T.is_fun():
                opts.append(('abs',))
                opts.append(('abs',))
            for nm, VT in declared.items():
                if VT.is_fun():
                    r = strip(VT, 1)
                    if r and r[1] == T:
                        opts.append(('app', nm, 1))
                    r = strip(VT, 2)
                    if r and r[1] == T:
                        opts.append(('app', nm, 2))
        else:
            for c, sg in sigs.items():
                try:
                    ti = sg.match(T)
                    opts.append(('const', c, 0, ti))
                except TypeMatchException:
                    pass
        if not opts:
            if T.is_fun():
                return Abs('u%d' % len(bd), T.domain_type(), gen(T.range_type(), d - 1, [T.domain_type()] + bd))
            import zlib
            return Var('w_' + str(zlib.crc32(str(T).encode()) % 7), T)      # undeclared variable
        o = rng.choice(opts)
        if o[0] == 'var':
            return Var(o[1], T)
        if o[0] == 'bound':
            return Bound(o[1])
        if o[0] == 'abs':
            return Abs('u%d' % len(bd), T.domain_type(), gen(T.range_type(), d - 1, [T.domain_type()] + bd))
        if o[0] == 'app':
            VT = declared[o[1]]
            args, _ = strip(VT, o[2])
            t = Var(o[1], VT)
            for A in args:
                t = Comb(t, gen(A, d - 1, bd))
            return t
        _, c, ar, ti = o
        ti = TyInst(**{k: v for k, v in ti.items()}) if not isinstance(ti, TyInst) else ti
        CT = fill(sigs[c], ti)
        args, _ = strip(CT, ar)
        t = Const(c, CT)
        for A in args:
            t = Comb(t, gen(A, d - 1, bd))
        return t

    def erase(t, keep_const, keep_binder, keep_var):
        """A fresh skeleton (new objects: type_infer works in place)."""
        if t.is_svar():
            return SVar(t.name, t.T if rng.random() < keep_var else None)
        if t.is_var():
            return Var(t.name, t.T if rng.random() < keep_var else None)
        if t.is_const():
            return Const(t.name, t.T if rng.random() < keep_const else None)
        if t.is_comb():
            return Comb(erase(t.fun, keep_const, keep_binder, keep_var), erase(t.arg, keep_const, keep_binder, keep_var))
        if t.is_abs():
            return Abs(t.var_name, t.var_T if rng.random() < keep_binder else None,
                       erase(t.body, keep_const, keep_binder, keep_var))
        return Bound(t.n)

    def clone(t):
        if t.is_svar():
            return SVar(t.name, t.T)
        if t.is_var():
            return Var(t.name, t.T)
        if t.is_const():
            return Const(t.name, t.T)
        if t.is_comb():
            return Comb(clone(t.fun), clone(t.arg))
        if t.is_abs():
            return Abs(t.var_name, t.var_T, clone(t.body))
        return Bound(t.n)

    def positions(t, path=()):
        yield path, t
        if t.is_comb():
            yield from positions(t.fun, path + (0,))
            yield from positions(t.arg, path + (1,))
        elif t.is_abs():
            yield from positions(t.body, path + (2,))

    def shape(t):
        if t.is_svar():
            return ('S', t.name)
        if t.is_var():
            return ('V', t.name)
        if t.is_const():
            return ('C', t.name)
        if t.is_comb():
            return ('A', shape(t.fun), shape(t.arg))
        if t.is_abs():
            return ('L', shape(t.body))
        return ('B', t.n)

    def has_internal(T):
        return T is None or any(infertype.is_internal_type(v) for v in T.get_stvars())

    def check_result(sk0, res, ctx_vars):
        """Post-condition of a successful inference. sk0 = untouched copy of the skeleton."""
        errs = []
        if shape(sk0) != shape(res):
            errs.append('shape changed')
            return errs
        try:
            res.checked_get_type()
        except TypeCheckException as e:
            errs.append('result does not type-check')
        seen = {}
        given = {}
        for p0, s in positions(sk0):
            if s.is_var() and s.T is not None:
                given.setdefault(s.name, set()).add(s.T)
        for (p0, s), (p1, r) in zip(positions(sk0), positions(res)):
            if r.is_var() or r.is_svar() or r.is_const():
                if has_internal(r.T):
                    errs.append('internal/missing type left at %s' % r.name)
                if s.T is not None and r.T != s.T:
                    errs.append('annotation of %s changed' % r.name)
            if r.is_abs():
                if has_internal(r.var_T):
                    errs.append('internal/missing binder type')
                if s.var_T is not None and r.var_T != s.var_T:
                    errs.append('binder annotation changed')
            if r.is_svar() and s.T is None:
                if ('?', r.name) in seen and seen[('?', r.name)] != r.T:
                    errs.append('schematic variable %s at two types' % r.name)
                seen.setdefault(('?', r.name), r.T)
            if r.is_var():
                if s.T is None and r.name in ctx_vars and r.T != ctx_vars[r.name]:
                    errs.append('declared type of %s not used' % r.name)
                # occurrences WITHOUT a given type get one type, which is the given one where the skeleton gives
                # one (two different explicit annotations of one name are two variables for the kernel: the
                # skeleton, not the inference, made them differ)
                if s.T is None:
                    if r.name in seen and seen[r.name] != r.T:
                        errs.append('variable %s at two types' % r.name)
                    seen.setdefault(r.name, r.T)
                    given_here = given.get(r.name, set())
                    if given_here and r.T not in given_here:
                        errs.append('variable %s at two types (differs from the annotated occurrence)' % r.name)
            if r.is_const() and r.T is not None and r.name in sigs:
                try:
                    sigs[r.name].match(r.T)
                except TypeMatchException:
                    errs.append('constant %s not at an instance of its declared type' % r.name)
        return errs

    violations = []
    samples = []
    evals = 0
    distinct = set()
    stats = {'ok': 0, 'underdetermined': 0, 'rejected': 0}
    signal.signal(signal.SIGALRM, _alarm)

    def call(sk):
        signal.alarm(10)
        try:
            return ('ok', infertype.type_infer(sk))
        except TypeInferenceException as e:
            return ('fail', e.err)
        except _Timeout:
            return ('hang', None)
        except RecursionError:
            return ('crash', 'RecursionError')
        except Exception as e:
            return ('crash', '%s: %s' % (type(e).__name__, str(e)[:100]))
        finally:
            signal.alarm(0)

    def viol(kind, sk0, detail, **extra):
        d = {'clause': kind, 'skeleton': repr(sk0), 'detail': detail}
        d.update(extra)
        violations.append(d)

    def one(sk, ctx_vars, orig=None, must_recover=False, label=''):
        nonlocal evals
        sk0 = clone(sk)
        context.set_context('real', vars=dict(ctx_vars))
        kind, res = call(sk)
        evals += 1
        key = repr(sk0)
        distinct.add(key)
        if len(samples) < 3 and len(key) < 300:
            samples.append({'skeleton': key, 'outcome': kind, 'family': label})
        ctx = {k: str(v) for k, v in ctx_vars.items()}
        if kind == 'hang':
            viol('terminates', sk0, 'no answer within 10 s', context_vars=ctx, family=label)
            return
        if kind == 'crash':
            viol('own-error', sk0, 'foreign exception ' + res, context_vars=ctx, family=label)
            return
        if kind == 'fail':
            if 'Unspecified type' in res:
                stats['underdetermined'] += 1
                if must_recover:
                    viol('recovers', sk0, 'reported under-determined although constant and binder types were kept',
                         context_vars=ctx, family=label)
            else:
                stats['rejected'] += 1
                if orig is not None:
                    viol('recovers', sk0, 'erasure of a well-typed term rejected: ' + res.split('\n')[0],
                         context_vars=ctx, family=label, original=repr(orig))
            return
        stats['ok'] += 1
        errs = check_result(sk0, res, ctx_vars)
        for e in errs:
            viol('result', sk0, e, context_vars=ctx, family=label, result=repr(res))
        if orig is not None and not errs and res != orig:
            viol('recovers', sk0, 'result differs from the original well-typed term', context_vars=ctx,
                 family=label, result=repr(res), original=repr(orig))

    n = 1200 if tier == 'quick' else 20000
    for it in range(n):
        T = rng.choice(pool if rng.random() < 0.5 else [BoolType])
        t = gen(T, rng.choice([1, 2, 3, 4]), [])
        try:
            t.checked_get_type()
        except TypeCheckException:
            continue        # generator slip: not a test case
        ctx_vars = {v.name: v.T for v in t.get_vars()}
        # (a) everything erased except declared variables
        one(erase(t, 0, 0, 0), ctx_vars, orig=t, label='erase-all')
        # (b) constant and binder types kept: must recover
        one(erase(t, 1, 1, 0), ctx_vars, orig=t, must_recover=True, label='erase-vars')
        # (c) random partial erasure
        one(erase(t, rng.random(), rng.random(), rng.random()), ctx_vars, orig=t, label='erase-partial')
        # (d) undeclared variables (no context): only the result clauses apply
        one(erase(t, 0, rng.random(), 0), {}, label='undeclared')
        one(erase(t, rng.random(), rng.random(), rng.random()), {}, label='undeclared-partial')
        # (e) ill-typed mutants: swap an application, self application, replace a leaf by another variable
        sk = erase(t, 0, 0, 0)
        ps = [(p, s) for p, s in positions(sk) if s.is_comb()]
        if ps:
            p, s = rng.choice(ps)
            k = rng.random()
            if k < 0.4:
                s.fun, s.arg = s.arg, s.fun
            elif k < 0.7:
                s.arg = clone(s.fun)
            else:
                s.arg = Var(rng.choice(list(declared)), None)
            one(sk, {} if rng.random() < 0.5 else ctx_vars, label='mutant')
        # (f) a variable occurrence renamed to another DECLARED variable (both declared): the only clash may be
        # between two rigid type variables, or between a type variable and a constant type
        sk = erase(t, 0, 0, 0)
        leaves = [s_ for p_, s_ in positions(sk) if s_.is_var()]
        if leaves:
            lf = rng.choice(leaves)
            other = rng.choice([n_ for n_ in declared if n_ != lf.name])
            lf.name = other
            cv = dict(ctx_vars)
            cv[other] = declared[other]
            one(sk, cv, label='renamed-declared')
        # (g) schematic variables: some variables of the term turned into SVars, declared (context svars) or not;
        # several unannotated occurrences of one undeclared ?v must still get ONE type
        sv_names = set(rng.sample(sorted(ctx_vars), min(len(ctx_vars), rng.choice([1, 2])))) if ctx_vars else set()
        if sv_names:
            def to_svar(u):
                if u.is_var() and u.name in sv_names:
                    return SVar(u.name, u.T)
                if u.is_comb():
                    return Comb(to_svar(u.fun), to_svar(u.arg))
                if u.is_abs():
                    return Abs(u.var_name, u.var_T, to_svar(u.body))
                return clone(u)
            ts = to_svar(t)
            sk = erase(ts, 0, rng.random(), 0)
            declared_sv = rng.random() < 0.5
            sk0 = clone(sk)
            context.set_context('real', vars={k_: v_ for k_, v_ in ctx_vars.items() if k_ not in sv_names},
                                svars=({k_: ctx_vars[k_] for k_ in sv_names} if declared_sv else {}))
            kind, res = call(sk)
            evals += 1
            distinct.add('svar|' + repr(sk0))
            if kind in ('hang', 'crash'):
                viol('terminates' if kind == 'hang' else 'own-error', sk0, str(res), family='schematic')
            elif kind == 'ok':
                seen_sv = {}
                try:
                    res.checked_get_type()
                except TypeCheckException:
                    viol('result', sk0, 'result does not type-check', family='schematic', result=repr(res))
                for (p0, s_), (p1, r_) in zip(positions(sk0), positions(res)):
                    if (r_.is_var() or r_.is_svar() or r_.is_const()) and has_internal(r_.T) or \
                            r_.is_abs() and has_internal(r_.var_T):
                        viol('result', sk0, 'internal / missing type left in the result', family='schematic',
                             result=repr(res))
                    if r_.is_svar() and s_.T is None:
                        if r_.name in seen_sv and seen_sv[r_.name] != r_.T:
                            viol('result', sk0, 'schematic variable %s at two types' % r_.name, family='schematic',
                                 result=repr(res))
                        seen_sv.setdefault(r_.name, r_.T)
                        if declared_sv and r_.T != ctx_vars[r_.name]:
                            viol('result', sk0, 'declared type of ?%s not used' % r_.name, family='schematic',
                                 result=repr(res))
                if declared_sv and res != ts:
                    viol('recovers', sk0, 'result differs from the original term (schematic variables declared)',
                         family='schematic', result=repr(res), original=repr(ts))

    # occurs-check chains v0 = [v1], v1 = [v2], ..., v_{m-1} = [v0] (and acyclic variants), every constraint order
    import itertools
    def eq(a, b):
        return Comb(Comb(Const('equals', None), a), b)
    def single(a):
        return Comb(Comb(Const('cons', None), a), Const('nil', None))
    def conj(l):
        t = l[-1]
        for s in reversed(l[:-1]):
            t = Comb(Comb(Const('conj', None), s), t)
        return t
    for m in ([2, 3, 4] if tier == 'quick' else [2, 3, 4, 5]):
        for cyclic in (True, False):
            cons_ = [(i, (i + 1) % m) for i in range(m if cyclic else m - 1)]
            perms = list(itertools.permutations(cons_))
            if len(perms) > 60:
                perms = rng.sample(perms, 60)
            for perm in perms:
                for flip in range(2 ** len(perm) if len(perm) <= 3 else 4):
                    parts = []
                    for idx, (i, j) in enumerate(perm):
                        a, b = Var('v%d' % i, None), single(Var('v%d' % j, None))
                        if len(perm) <= 3:
                            fl = (flip >> idx) & 1
                        else:
                            fl = rng.random() < 0.5
                        parts.append(eq(b, a) if fl else eq(a, b))
                    sk = conj(parts)
                    sk0 = clone(sk)
                    context.set_context('real', vars={})
                    kind, res = call(sk)
                    evals += 1
                    distinct.add(repr(sk0))
                    if kind == 'hang' or kind == 'crash':
                        viol('terminates' if kind == 'hang' else 'own-error', sk0, str(res), family='occurs-chain')
                    elif cyclic and kind == 'ok':
                        viol('result', sk0, 'cyclic type constraints accepted', result=repr(res), family='occurs-chain')
                    elif cyclic and 'Unspecified' in res:
                        viol('result', sk0, 'cyclic constraints reported as under-determined', family='occurs-chain')
                    elif not cyclic and kind == 'fail' and 'Unspecified' not in res:
                        viol('recovers', sk0, 'satisfiable chain rejected: ' + res.split('\n')[0], family='occurs-chain')
    # clashing uses of one variable
    clash = [
        lambda: conj([eq(Var('c', NAT), Const('zero', None)), Var('c', None)]),
        lambda: conj([Var('c', None), eq(Var('c', NAT), Const('zero', None))]),
        lambda: conj([eq(Var('c', NAT), Const('zero', None)), Var('c', BoolType)]),
        lambda: conj([eq(Var('c', None), Const('zero', NAT)), Var('c', None)]),
        lambda: Comb(Var('c', None), Var('c', None)),
        lambda: conj([eq(Var('x', INT), Const('zero', None)), eq(Var('x', None), Const('zero', None))]),
    ]
    clash += [
        lambda: conj([eq(SVar('c', None), Const('zero', NAT)), SVar('c', None)]),
        lambda: conj([eq(Comb(SVar('f', None), Var('x', None)), Var('x', None)), Comb(SVar('f', None), Var('p', None))]),
        lambda: Comb(SVar('c', None), SVar('c', None)),
    ]
    # under-determined skeletons whose open type sits only in the types of schematic (or free) variables: a
    # returned term must not carry an internal type variable anywhere (check_result looks at every position)
    clash += [
        lambda: Comb(SVar('f', None), SVar('y', None)),
        lambda: eq(Comb(SVar('f', None), SVar('y', None)), Const('zero', NAT)),
        lambda: eq(Comb(SVar('f', None), Comb(SVar('g', None), SVar('y', None))), Const('zero', NAT)),
        lambda: conj([eq(Comb(SVar('f', None), SVar('y', None)), Const('zero', NAT)), Var('p', None)]),
        lambda: eq(Comb(SVar('f', None), Var('y', None)), Const('zero', NAT)),
        lambda: eq(Comb(Var('f', None), SVar('y', None)), Const('zero', NAT)),
        lambda: Abs('u', NAT, eq(Comb(Comb(SVar('f', None), SVar('y', None)), Bound(0)), Const('zero', NAT))),
    ]
    for mk in clash:
        for ctx_vars in ({}, {'x': NAT}):
            sk = mk()
            one(sk, ctx_vars, label='clash')

    context.set_context('real', vars={})
    return {
        'name': 'c08_infer',
        'rule': 'type-directed well-typed terms (depth <= 4) over theory real erased 5 ways; ill-typed mutants; '
                'occurs-check chains of length 2..%d in all/sampled constraint orders and orientations; clashing '
                'variable uses; oracle = kernel type checker + structural comparison with the original' %
                (4 if tier == 'quick' else 5),
        'evaluations': evals,
        'distinct_nontrivial': len(distinct),
        'samples': samples,
        'stats': stats,
        'violations': violations,
        'secs': round(time.time() - t0, 1),
    }


if __name__ == '__main__':
    import json
    r = run(sys.argv[1] if len(sys.argv) > 1 else 'quick', int(sys.argv[2]) if len(sys.argv) > 2 else 0)
    vs = r.pop('violations')
    print(json.dumps(r, indent=1)[:1500])
    print(len(vs), 'violations')
    seen = set()
    for v in vs:
        k = (v['clause'], v['detail'][:40], v.get('family'))
        if k in seen:
            continue
        seen.add(k)
        print(json.dumps(v, indent=1)[:1200])
