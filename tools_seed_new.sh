#!/bin/sh
# Take over a seeded change delivered by a sub-agent in a scratch worktree (change applied there): confirm that the patch
# applies to the unchanged tree, that the demonstration fails with it and passes without, that the stable baseline passes
# with it, and run the given checks against the worktree (PYVC_REPO / HOLPY_REPO; /repo is not touched).
# usage: tools_seed_new.sh <worktree> <name> <property> [check ids...]
wt=$1; n=$2; prop=$3; shift 3
checks=${*:-$prop}
d=/verif/seeded/$n
mkdir -p $d /tmp/bl
for f in patch.diff demo.py notes.md; do [ -f $wt/$f ] && cp $wt/$f $d/$f; done
# the patch must be exactly the source difference of the worktree and apply to the unchanged tree
git -C $wt diff > /tmp/bl/$n.cur.diff
v=/tmp/wt_chk_$n
git -C /repo worktree add -q --detach $v HEAD
if git -C $v apply $d/patch.diff 2>/tmp/bl/$n.apply; then applies=true; else applies=false; fi
cp $d/demo.py $v/demo.py
(cd $v && timeout 900 /venv/bin/python demo.py > /tmp/bl/$n.demo_with 2>&1; echo $? > /tmp/bl/$n.demo_with.rc)
git -C $v checkout -q -- . 
(cd $v && timeout 900 /venv/bin/python demo.py > /tmp/bl/$n.demo_without 2>&1; echo $? > /tmp/bl/$n.demo_without.rc)
git -C $v apply $d/patch.diff
rm -f $v/demo.py
REPO=$v /verif/tools_baseline.sh /tmp/bl/seeded_$n.xml > /tmp/bl/seeded_$n.txt 2>&1
for c in $checks; do
  (cd /verif && PYVC_REPO=$v HOLPY_REPO=$v ./check $c --tier quick > /tmp/bl/$n.$c.out 2>&1; echo $? > /tmp/bl/$n.$c.rc)
done
/venv/bin/python - $d $n $prop $applies $checks <<'PY'
import json, sys, time, subprocess
d, n, prop, applies = sys.argv[1:5]; checks = sys.argv[5:]
rd = lambda p: open(p, errors='replace').read()
m = {'name': n, 'property': prop, 'evaluated_at': time.strftime('%Y-%m-%d %H:%M:%S'),
     'repo_head': subprocess.run(['git', '-C', '/repo', 'rev-parse', '--short', 'HEAD'], capture_output=True, text=True).stdout.strip(),
     'applies': applies == 'true',
     'demo_with_change': {'exit': int(rd('/tmp/bl/%s.demo_with.rc' % n)), 'tail': rd('/tmp/bl/%s.demo_with' % n)[-400:], 'where': 'scratch worktree with the patch applied'},
     'demo_without_change': {'exit': int(rd('/tmp/bl/%s.demo_without.rc' % n)), 'tail': rd('/tmp/bl/%s.demo_without' % n)[-200:], 'where': 'the same scratch worktree, patch reverted'},
     'baseline_with_change': rd('/tmp/bl/seeded_%s.txt' % n).strip()[:300],
     'ran': 'tools_seed_new.sh: demo.py with / without the patch in a scratch worktree, tools_baseline.sh there, ./check <id> --tier quick with PYVC_REPO / HOLPY_REPO pointing there',
     'checks_with_change': {}}
for c in checks:
    out = rd('/tmp/bl/%s.%s.out' % (n, c)).splitlines()
    m['checks_with_change'][c] = {'exit': int(rd('/tmp/bl/%s.%s.rc' % (n, c))),
                                  'lines': [l[:220] for l in out if l.startswith(('VIOLATION', 'UNDECIDED', 'OUT-OF-REACH'))][:6]}
m['caught_by'] = [c for c, r in m['checks_with_change'].items() if r['exit'] == 1]
try:
    m['needs_to_manifest'] = rd(d + '/notes.md')[:1500]
except Exception:
    pass
json.dump(m, open(d + '/meta.json', 'w'), indent=1)
print(json.dumps({k: v for k, v in m.items() if k != 'needs_to_manifest'}, indent=1)[:2000])
PY
git -C /repo worktree remove --force $v
