"""Specification of type instantiation and term instantiation on terms."""
from spec.api import implies, iff, ite, lemma, requires, ensures, decreases, as_set, empty_set
from kernel.term import Term, SVar, Var, Const, Comb, Abs, Bound
from kernel.type import Type, STVar, TVar, TConst
from spec.types import tsubst


def subst_type_spec(t: 'Term', inst: 'map[str,Type]') -> 'Term':
    if t.is_svar():
        return SVar(t.name, tsubst(t.T, inst))
    elif t.is_var():
        return Var(t.name, tsubst(t.T, inst))
    elif t.is_const():
        return Const(t.name, tsubst(t.T, inst))
    elif t.is_comb():
        return Comb(subst_type_spec(t.fun, inst), subst_type_spec(t.arg, inst))
    elif t.is_abs():
        return Abs('_', tsubst(t.var_T, inst), subst_type_spec(t.body, inst))
    else:
        return t


def subst_spec(t: 'Term', sv: 'map[str,Term]', vv: 'map[str,Term]') -> 'Term':
    """Simultaneous replacement of schematic variables (by name, via sv) and variables (by name,
    via vv).  Exactly what Term.subst's inner recursion is meant to compute; replaced terms are
    inserted as they are (NOT lifted under binders), so it is capture-free only for closed values."""
    if t.is_svar():
        if t.name in sv:
            return sv[t.name]
        else:
            return t
    elif t.is_var():
        if t.name in vv:
            return vv[t.name]
        else:
            return t
    elif t.is_comb():
        return Comb(subst_spec(t.fun, sv, vv), subst_spec(t.arg, sv, vv))
    elif t.is_abs():
        return Abs('_', t.var_T, subst_spec(t.body, sv, vv))
    else:
        return t


def svars_of(t: 'Term') -> 'set[Term]':
    """The schematic variables (name and type) occurring in t."""
    if t.is_svar():
        return as_set((t,))
    elif t.is_comb():
        return svars_of(t.fun) | svars_of(t.arg)
    elif t.is_abs():
        return svars_of(t.body)
    else:
        return empty_set('Term')


def inst_ty(t: 'Term', tyinst: 'map[str,Type]') -> 'Term':
    """Type instantiation as Term.subst applies it: skipped when the type instantiation is empty."""
    if tyinst:
        return subst_type_spec(t, tyinst)
    else:
        return t
