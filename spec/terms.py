"""Specification functions on holpy terms and types (pure Python; translated to z3 recursive
functions by pyvc and executable natively on real kernel.term.Term objects for replay).

Terms are nameless here: `Abs.var_name` is not part of the model, so structural equality of the
datatype IS alpha-equivalence.
"""
from spec.api import implies, iff, ite, lemma, requires, ensures, decreases, native, uninterpreted
from kernel.term import Term, SVar, Var, Const, Comb, Abs, Bound
from kernel.type import Type, STVar, TVar, TConst


# ---------------------------------------------------------------- size / measures
def tsize(t: 'Term') -> int:
    if t.is_comb():
        return 1 + tsize(t.fun) + tsize(t.arg)
    elif t.is_abs():
        return 1 + tsize(t.body)
    else:
        return 1


# ---------------------------------------------------------------- de Bruijn operations
def loose(t: 'Term', k: int) -> bool:
    """Some loose bound variable of t has index >= k (t is open relative to k binders)."""
    if t.is_comb():
        return loose(t.fun, k) or loose(t.arg, k)
    elif t.is_abs():
        return loose(t.body, k + 1)
    elif t.is_bound():
        return t.n >= k
    else:
        return False


def lift(t: 'Term', lev: int, inc: int) -> 'Term':
    """Increase every loose bound variable with index >= lev by inc."""
    if t.is_comb():
        return Comb(lift(t.fun, lev, inc), lift(t.arg, lev, inc))
    elif t.is_abs():
        return Abs('_', t.var_T, lift(t.body, lev + 1, inc))
    elif t.is_bound():
        if t.n >= lev:
            return Bound(t.n + inc)
        else:
            return t
    else:
        return t


def inst_bound(s: 'Term', n: int, u: 'Term') -> 'Term':
    """Substitute u for the bound variable n in s (one binder removed; u lifted under binders)."""
    if s.is_comb():
        return Comb(inst_bound(s.fun, n, u), inst_bound(s.arg, n, u))
    elif s.is_abs():
        return Abs('_', s.var_T, inst_bound(s.body, n + 1, u))
    elif s.is_bound():
        if s.n == n:
            return lift(u, 0, n)
        elif s.n > n:
            return Bound(s.n - 1)
        else:
            return s
    else:
        return s


def is_variable(x: 'Term') -> bool:
    return x.is_var() or x.is_svar()


def same_var(s: 'Term', x: 'Term') -> bool:
    """s is an occurrence of the variable x up to its type (same sort of variable, same name)."""
    return (s.is_var() and x.is_var() and s.name == x.name) or (s.is_svar() and x.is_svar() and s.name == x.name)


def fv(x: 'Term', t: 'Term') -> bool:
    """The variable or schematic variable x (name AND type) occurs in t."""
    if t.is_comb():
        return fv(x, t.fun) or fv(x, t.arg)
    elif t.is_abs():
        return fv(x, t.body)
    elif t.is_var() or t.is_svar():
        return t == x
    else:
        return False


def fv_name(x: 'Term', t: 'Term') -> bool:
    """Some variable of the same sort and name as x (any type) occurs in t."""
    if t.is_comb():
        return fv_name(x, t.fun) or fv_name(x, t.arg)
    elif t.is_abs():
        return fv_name(x, t.body)
    else:
        return same_var(t, x)


def abstract(s: 'Term', n: int, x: 'Term') -> 'Term':
    """Replace the variable x by Bound(n) (n grows under binders)."""
    if s.is_comb():
        return Comb(abstract(s.fun, n, x), abstract(s.arg, n, x))
    elif s.is_abs():
        return Abs('_', s.var_T, abstract(s.body, n + 1, x))
    elif same_var(s, x):
        return Bound(n)
    else:
        return s


def abstract_ok(s: 'Term', x: 'Term') -> bool:
    """Every variable of s with the name (and sort) of x also has the type of x."""
    if s.is_comb():
        return abstract_ok(s.fun, x) and abstract_ok(s.arg, x)
    elif s.is_abs():
        return abstract_ok(s.body, x)
    elif same_var(s, x):
        return s.T == x.T
    else:
        return True


# ---------------------------------------------------------------- heads / spines
def head_of(t: 'Term') -> 'Term':
    if t.is_comb():
        return head_of(t.fun)
    else:
        return t


def nargs_of(t: 'Term') -> int:
    if t.is_comb():
        return 1 + nargs_of(t.fun)
    else:
        return 0


def args_of(t: 'Term') -> 'seq[Term]':
    if t.is_comb():
        return args_of(t.fun) + [t.arg]
    else:
        return []


def is_app(t: 'Term', name: str, n: int) -> bool:
    """t is the constant `name` applied to exactly n >= 1 arguments."""
    return t.is_comb() and head_of(t).is_const() and head_of(t).name == name and nargs_of(t) == n


def is_app_any(t: 'Term', name: str) -> bool:
    return t.is_comb() and head_of(t).is_const() and head_of(t).name == name


# ---------------------------------------------------------------- lemmas (proved by pyvc, by induction)
@lemma
def lift_closed(t: 'Term', k: int, n: int):
    """Lifting does not change a term without loose bound variables >= k."""
    decreases(t)
    if t.is_comb():
        lift_closed(t.fun, k, n)
        lift_closed(t.arg, k, n)
    elif t.is_abs():
        lift_closed(t.body, k + 1, n)
    ensures(implies(not loose(t, k), lift(t, k, n) == t))


# ---------------------------------------------------------------- types of terms
def bool_ty() -> 'Type':
    return TConst('bool')


def fun_ty(a: 'Type', b: 'Type') -> 'Type':
    return TConst('fun', a, b)


def is_fun_ty(T: 'Type') -> bool:
    return T.is_tconst() and T.name == "fun" and len(T.args) >= 2


def ty_of(t: 'Term', bd: 'seq[Type]') -> 'Type':
    """Type of t in the context bd of bound-variable types (total; arbitrary on ill-typed terms)."""
    if t.is_comb():
        return ty_of(t.fun, bd).args[1]
    elif t.is_abs():
        return fun_ty(t.var_T, ty_of(t.body, [t.var_T] + bd))
    elif t.is_bound():
        return bd[t.n]
    else:
        return t.T


def wt(t: 'Term', bd: 'seq[Type]') -> bool:
    """t is well-typed in context bd: every application has a function of type a => b applied to an
    argument of type a, every bound variable is in range 0 <= n < len(bd)."""
    if t.is_comb():
        return wt(t.fun, bd) and wt(t.arg, bd) and is_fun_ty(ty_of(t.fun, bd)) and \
            ty_of(t.fun, bd).args[0] == ty_of(t.arg, bd)
    elif t.is_abs():
        return wt(t.body, [t.var_T] + bd)
    elif t.is_bound():
        return 0 <= t.n and t.n < len(bd)
    else:
        return True


def weak_wt(t: 'Term', bd: 'seq[Type]') -> bool:
    """What Term.get_type checks (argument types are NOT checked): heads are functions, bounds in range."""
    if t.is_comb():
        return weak_wt(t.fun, bd) and ty_of(t.fun, bd).is_tconst() and ty_of(t.fun, bd).name == 'fun' and \
            len(ty_of(t.fun, bd).args) >= 2
    elif t.is_abs():
        return weak_wt(t.body, [t.var_T] + bd)
    elif t.is_bound():
        return -len(bd) <= t.n and t.n < len(bd)
    else:
        return True


# ---------------------------------------------------------------- argument lists
def rargs_of(t: 'Term') -> 'seq[Term]':
    """Arguments of the spine of t, last argument first."""
    if t.is_comb():
        return [t.arg] + rargs_of(t.fun)
    else:
        return []


def rev_Term(s: 'seq[Term]') -> 'seq[Term]':
    if len(s) == 0:
        return []
    else:
        return rev_Term(s[1:]) + [s[0]]


@lemma
def rev_rargs(t: 'Term'):
    decreases(t)
    if t.is_comb():
        rev_rargs(t.fun)
    ensures(rev_Term(rargs_of(t)) == args_of(t))


@lemma
def len_args(t: 'Term'):
    decreases(t)
    if t.is_comb():
        len_args(t.fun)
    ensures(len(args_of(t)) == nargs_of(t) and nargs_of(t) >= 0)


@lemma
def args_small(t: 'Term'):
    """Explicit argument lists for spines of length 1, 2, 3."""
    if t.is_comb():
        len_args(t.fun)
        if t.fun.is_comb():
            len_args(t.fun.fun)
            if t.fun.fun.is_comb():
                len_args(t.fun.fun.fun)
    ensures(implies(nargs_of(t) == 1, args_of(t) == [t.arg] and not t.fun.is_comb()))
    ensures(implies(nargs_of(t) == 2, args_of(t) == [t.fun.arg, t.arg] and t.fun.is_comb() and
                    not t.fun.fun.is_comb()))
    ensures(implies(nargs_of(t) == 3, args_of(t) == [t.fun.fun.arg, t.fun.arg, t.arg] and t.fun.is_comb() and
                    t.fun.fun.is_comb() and not t.fun.fun.fun.is_comb()))


@lemma
def app_shapes(t: 'Term'):
    """Spines of length 1, 2 and 3, spelled out."""
    if t.is_comb():
        if t.fun.is_comb():
            if t.fun.fun.is_comb():
                if t.fun.fun.fun.is_comb():
                    nargs_nonneg(t.fun.fun.fun.fun)
                    assert nargs_of(t) >= 4
                else:
                    assert nargs_of(t) == 3 and head_of(t) == t.fun.fun.fun
            else:
                assert nargs_of(t) == 2 and head_of(t) == t.fun.fun
        else:
            assert nargs_of(t) == 1 and head_of(t) == t.fun
    else:
        assert nargs_of(t) == 0
    ensures(implies(nargs_of(t) == 1, t.is_comb() and head_of(t) == t.fun and not t.fun.is_comb()))
    ensures(implies(nargs_of(t) == 2, t.is_comb() and t.fun.is_comb() and head_of(t) == t.fun.fun and
                    not t.fun.fun.is_comb()))
    ensures(implies(nargs_of(t) == 3, t.is_comb() and t.fun.is_comb() and t.fun.fun.is_comb() and
                    head_of(t) == t.fun.fun.fun and not t.fun.fun.fun.is_comb()))
    ensures(implies(t.is_comb() and not t.fun.is_comb(), nargs_of(t) == 1))
    ensures(implies(t.is_comb() and t.fun.is_comb() and not t.fun.fun.is_comb(), nargs_of(t) == 2))
    ensures(nargs_of(t) >= 0)


@lemma
def nargs_nonneg(t: 'Term'):
    decreases(t)
    if t.is_comb():
        nargs_nonneg(t.fun)
    ensures(nargs_of(t) >= 0)
