"""Semantics of the expressions of imperative/expr.py (C20).

A state gives integers to variables, integer arrays (with a length) to array identifiers."""
from spec.api import implies, iff, ite, lemma, requires, ensures, decreases, native
from imperative.expr import Expr, Var, ArrayElt, Field, Const, Op, Fun, ITE, Forall


def no_forall(e: 'Expr') -> bool:
    if isinstance(e, Forall):
        return False
    elif isinstance(e, ArrayElt):
        return no_forall(e.ident) and no_forall(e.idx)
    elif isinstance(e, Field):
        return no_forall(e.ident)
    elif isinstance(e, ITE):
        return no_forall(e.cond) and no_forall(e.e1) and no_forall(e.e2)
    elif isinstance(e, Op) or isinstance(e, Fun):
        return no_forall_list(e.args)
    else:
        return True


def no_forall_list(l: 'seq[Expr]') -> bool:
    if len(l) == 0:
        return True
    else:
        return no_forall(l[0]) and no_forall_list(l[1:])


def evi(e: 'Expr', ints: 'arr[str,int]', arrs: 'arr[str,arr[int,int]]', lens: 'arr[str,int]') -> int:
    """Integer value of e in the state (ints, arrs, lens); arbitrary (0) on ill-typed expressions."""
    if isinstance(e, Var):
        return ints[e.name]
    elif isinstance(e, ArrayElt):
        if isinstance(e.ident, Var):
            return arrs[e.ident.name][evi(e.idx, ints, arrs, lens)]
        else:
            return 0
    elif isinstance(e, Field):
        if isinstance(e.ident, Var) and e.fieldname == 'length':
            return lens[e.ident.name]
        else:
            return 0
    elif isinstance(e, ITE):
        if evb(e.cond, ints, arrs, lens):
            return evi(e.e1, ints, arrs, lens)
        else:
            return evi(e.e2, ints, arrs, lens)
    elif isinstance(e, Op):
        if len(e.args) == 1:
            if e.op == '-':
                return 0 - evi(e.args[0], ints, arrs, lens)
            else:
                return 0
        elif len(e.args) == 2:
            if e.op == '+':
                return evi(e.args[0], ints, arrs, lens) + evi(e.args[1], ints, arrs, lens)
            elif e.op == '-':
                return evi(e.args[0], ints, arrs, lens) - evi(e.args[1], ints, arrs, lens)
            elif e.op == '*':
                return evi(e.args[0], ints, arrs, lens) * evi(e.args[1], ints, arrs, lens)
            else:
                return 0
        else:
            return 0
    elif isinstance(e, Fun):
        if e.fname == 'abs' and len(e.args) == 1:
            return abs(evi(e.args[0], ints, arrs, lens))
        elif e.fname == 'max' and len(e.args) == 2:
            return max(evi(e.args[0], ints, arrs, lens), evi(e.args[1], ints, arrs, lens))
        else:
            return 0
    elif isinstance(e, Forall):
        return 0
    else:
        return const_int(e)


def evb(e: 'Expr', ints: 'arr[str,int]', arrs: 'arr[str,arr[int,int]]', lens: 'arr[str,int]') -> bool:
    """Truth value of e in the state; arbitrary (False) on ill-typed expressions and on Forall."""
    if isinstance(e, ITE):
        if evb(e.cond, ints, arrs, lens):
            return evb(e.e1, ints, arrs, lens)
        else:
            return evb(e.e2, ints, arrs, lens)
    elif isinstance(e, Op):
        if len(e.args) == 1:
            if e.op == '~':
                return not evb(e.args[0], ints, arrs, lens)
            else:
                return False
        elif len(e.args) == 2:
            if e.op == '==':
                return evi(e.args[0], ints, arrs, lens) == evi(e.args[1], ints, arrs, lens)
            elif e.op == '!=':
                return evi(e.args[0], ints, arrs, lens) != evi(e.args[1], ints, arrs, lens)
            elif e.op == '<=':
                return evi(e.args[0], ints, arrs, lens) <= evi(e.args[1], ints, arrs, lens)
            elif e.op == '<':
                return evi(e.args[0], ints, arrs, lens) < evi(e.args[1], ints, arrs, lens)
            elif e.op == '>=':
                return evi(e.args[0], ints, arrs, lens) >= evi(e.args[1], ints, arrs, lens)
            elif e.op == '>':
                return evi(e.args[0], ints, arrs, lens) > evi(e.args[1], ints, arrs, lens)
            elif e.op == '&':
                return evb(e.args[0], ints, arrs, lens) and evb(e.args[1], ints, arrs, lens)
            elif e.op == '|':
                return evb(e.args[0], ints, arrs, lens) or evb(e.args[1], ints, arrs, lens)
            elif e.op == '-->':
                return (not evb(e.args[0], ints, arrs, lens)) or evb(e.args[1], ints, arrs, lens)
            elif e.op == '<-->':
                return evb(e.args[0], ints, arrs, lens) == evb(e.args[1], ints, arrs, lens)
            else:
                return False
        else:
            return False
    elif isinstance(e, Var) or isinstance(e, ArrayElt) or isinstance(e, Field) or isinstance(e, Fun) or \
            isinstance(e, Forall):
        return False
    else:
        return const_bool(e)


@native
def const_int(e):
    """Value of an integer constant expression (0 for anything else); symbolic version in models/imperative.py."""
    return e.val if isinstance(e, Const) and type(e.val) == int else 0


@native
def const_bool(e):
    return e.val if isinstance(e, Const) and type(e.val) == bool else False


def upd_at(inst: 'map[str,Expr]', ints: 'arr[str,int]', arrs: 'arr[str,arr[int,int]]', lens: 'arr[str,int]',
           x: str) -> int:
    """Value of variable x after the simultaneous assignment described by inst, evaluated in the old state."""
    if x in inst:
        return evi(inst[x], ints, arrs, lens)
    else:
        return ints[x]


def idents_untouched(e: 'Expr', inst: 'map[str,Expr]') -> bool:
    """No array identifier / field owner of e is a key of inst (only integer variables are assigned)."""
    if isinstance(e, ArrayElt):
        return isinstance(e.ident, Var) and e.ident.name not in inst and idents_untouched(e.idx, inst)
    elif isinstance(e, Field):
        return isinstance(e.ident, Var) and e.ident.name not in inst
    elif isinstance(e, ITE):
        return idents_untouched(e.cond, inst) and idents_untouched(e.e1, inst) and idents_untouched(e.e2, inst)
    elif isinstance(e, Op) or isinstance(e, Fun):
        return idents_untouched_list(e.args, inst)
    elif isinstance(e, Forall):
        return idents_untouched(e.e, inst)
    else:
        return True


def idents_untouched_list(l: 'seq[Expr]', inst: 'map[str,Expr]') -> bool:
    if len(l) == 0:
        return True
    else:
        return idents_untouched(l[0], inst) and idents_untouched_list(l[1:], inst)


def is_int_expr(e: 'Expr') -> bool:
    """Syntactic typing: e denotes an integer (variables are integer variables)."""
    if isinstance(e, Var) or isinstance(e, Field):
        return True
    elif isinstance(e, ArrayElt):
        return is_int_expr(e.idx)
    elif isinstance(e, ITE):
        return is_bool_expr(e.cond) and is_int_expr(e.e1) and is_int_expr(e.e2)
    elif isinstance(e, Op):
        if len(e.args) == 1:
            return e.op == '-' and is_int_expr(e.args[0])
        elif len(e.args) == 2:
            return (e.op == '+' or e.op == '-' or e.op == '*') and is_int_expr(e.args[0]) and is_int_expr(e.args[1])
        else:
            return False
    elif isinstance(e, Fun):
        if e.fname == 'abs' and len(e.args) == 1:
            return is_int_expr(e.args[0])
        elif e.fname == 'max' and len(e.args) == 2:
            return is_int_expr(e.args[0]) and is_int_expr(e.args[1])
        else:
            return True
    elif isinstance(e, Forall):
        return False
    else:
        return const_is_int(e)


def is_bool_expr(e: 'Expr') -> bool:
    if isinstance(e, ITE):
        return is_bool_expr(e.cond) and is_bool_expr(e.e1) and is_bool_expr(e.e2)
    elif isinstance(e, Op):
        if len(e.args) == 1:
            return e.op == '~' and is_bool_expr(e.args[0])
        elif len(e.args) == 2:
            if e.op == '==' or e.op == '!=' or e.op == '<=' or e.op == '<' or e.op == '>=' or e.op == '>':
                return is_int_expr(e.args[0]) and is_int_expr(e.args[1])
            elif e.op == '&' or e.op == '|' or e.op == '-->' or e.op == '<-->':
                return is_bool_expr(e.args[0]) and is_bool_expr(e.args[1])
            else:
                return False
        else:
            return False
    elif isinstance(e, Var) or isinstance(e, ArrayElt) or isinstance(e, Field) or isinstance(e, Fun) or \
            isinstance(e, Forall):
        return False
    else:
        return not const_is_int(e)


@native
def const_is_int(e):
    return isinstance(e, Const) and type(e.val) == int


@lemma
def no_forall_nth(l: 'seq[Expr]', i: int):
    decreases(len(l))
    if len(l) > 0 and i > 0:
        no_forall_nth(l[1:], i - 1)
    ensures(implies(no_forall_list(l) and 0 <= i and i < len(l), no_forall(l[i])))


@lemma
def idents_nth(l: 'seq[Expr]', inst: 'map[str,Expr]', i: int):
    decreases(len(l))
    if len(l) > 0 and i > 0:
        idents_nth(l[1:], inst, i - 1)
    ensures(implies(idents_untouched_list(l, inst) and 0 <= i and i < len(l), idents_untouched(l[i], inst)))
