"""Specification functions on holpy types."""
from spec.api import implies, iff, ite, lemma, requires, ensures, decreases, seq_map, mk_tconst
from kernel.type import Type, STVar, TVar, TConst


def tsubst(T: 'Type', inst: 'map[str,Type]') -> 'Type':
    """Simultaneous substitution of schematic type variables."""
    if T.is_stvar():
        if T.name in inst:
            return inst[T.name]
        else:
            return T
    elif T.is_tvar():
        return T
    else:
        return mk_tconst(T.name, seq_map(tsubst, T.args, inst))


def tysize(T: 'Type') -> int:
    if T.is_tconst():
        return 1 + tysize_list(T.args)
    else:
        return 1


def tysize_list(l: 'seq[Type]') -> int:
    if len(l) == 0:
        return 0
    else:
        return tysize(l[0]) + tysize_list(l[1:])
