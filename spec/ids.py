"""Specification of proof-item identifiers (tuples of ints) and the dependency rule."""
from spec.api import implies, iff, ite, lemma, requires, ensures, decreases, bounded


def nonneg(a: 'seq[int]') -> bool:
    if len(a) == 0:
        return True
    else:
        return a[0] >= 0 and nonneg(a[1:])


def is_prefix(a: 'seq[int]', b: 'seq[int]') -> bool:
    return len(a) <= len(b) and b[:len(a)] == a


def dep_ok(a: 'seq[int]', b: 'seq[int]') -> bool:
    """b is an EARLIER SIBLING of an ancestor-or-self of a: b = p + [j], a = p + [i] + rest, j < i.
    (what "a may cite b" means in a block-structured proof)"""
    if len(b) >= 1:
        if len(b) <= len(a):
            return b[:len(b) - 1] == a[:len(b) - 1] and b[len(b) - 1] < a[len(b) - 1]
        else:
            return False
    else:
        return False


def lex_lt_at(a: 'seq[int]', b: 'seq[int]', k: int) -> bool:
    """a comes strictly before b in the depth-first (lexicographic, prefix first) order of positions,
    witnessed by the length k of their common prefix."""
    return 0 <= k and k <= len(a) and k <= len(b) and a[:k] == b[:k] and \
        ((k == len(a) and k < len(b)) or (k < len(a) and k < len(b) and a[k] < b[k]))


def incr_after_spec(a: 'seq[int]', start: 'seq[int]', n: int) -> 'seq[int]':
    """Renumbering for inserting n lines before `start` (len(start) = k >= 1): ids with the same
    k-1 prefix and k-th component >= start's get that component increased by n."""
    if len(start) >= 1:
        if len(a) >= len(start):
            if a[:len(start) - 1] == start[:len(start) - 1] and a[len(start) - 1] >= start[len(start) - 1]:
                return a[:len(start) - 1] + [a[len(start) - 1] + n] + a[len(start):]
            else:
                return a
        else:
            return a
    else:
        return a


def decr_spec(a: 'seq[int]', rem: 'seq[int]') -> 'seq[int]':
    if len(rem) >= 1:
        if len(a) >= len(rem):
            if a[:len(rem) - 1] == rem[:len(rem) - 1] and a[len(rem) - 1] > rem[len(rem) - 1]:
                return a[:len(rem) - 1] + [a[len(rem) - 1] - 1] + a[len(rem):]
            else:
                return a
        else:
            return a
    else:
        return a


# ---------------------------------------------------------------- lemmas about the dependency rule
@lemma
def dep_irreflexive(a: 'seq[int]'):
    ensures(not dep_ok(a, a))


@lemma
def dep_block_open(a: 'seq[int]', b: 'seq[int]'):
    """A cited step lives in a block that is still open at the citing step (never inside a closed
    block), and it is not the citing step's own ancestor."""
    ensures(implies(dep_ok(a, b), is_prefix(b[:len(b) - 1], a) and not is_prefix(b, a)))


@lemma
def dep_before(a: 'seq[int]', b: 'seq[int]'):
    """A cited step comes strictly earlier in the depth-first order in which the checker visits steps."""
    ensures(implies(dep_ok(a, b), lex_lt_at(b, a, len(b) - 1)))


@lemma
@bounded(4)
def dep_transitive(a: 'seq[int]', b: 'seq[int]', c: 'seq[int]'):
    ensures(implies(dep_ok(a, b) and dep_ok(b, c), dep_ok(a, c)))


# ---------------------------------------------------------------- renumbering lemmas (C13)
@lemma
def incr_injective(a: 'seq[int]', b: 'seq[int]', s: 'seq[int]', n: int):
    requires(len(s) >= 1 and n >= 0)
    ensures(implies(incr_after_spec(a, s, n) == incr_after_spec(b, s, n), a == b))


@lemma
def incr_keeps_length(a: 'seq[int]', s: 'seq[int]', n: int):
    requires(len(s) >= 1)
    ensures(len(incr_after_spec(a, s, n)) == len(a))


@lemma
@bounded(4)
def incr_preserves_dep(a: 'seq[int]', b: 'seq[int]', s: 'seq[int]', n: int):
    """Inserting n lines before s keeps exactly the citations that were allowed."""
    requires(len(s) >= 1 and n >= 0)
    ensures(dep_ok(incr_after_spec(a, s, n), incr_after_spec(b, s, n)) == dep_ok(a, b))


@lemma
@bounded(4)
def decr_preserves_dep(a: 'seq[int]', b: 'seq[int]', r: 'seq[int]'):
    """Removing line r keeps allowed citations between surviving lines (lines other than r and not
    inside r)."""
    requires(len(r) >= 1 and not is_prefix(r, a) and not is_prefix(r, b))
    ensures(dep_ok(decr_spec(a, r), decr_spec(b, r)) == dep_ok(a, b))


@lemma
@bounded(4)
def decr_injective(a: 'seq[int]', b: 'seq[int]', r: 'seq[int]'):
    requires(len(r) >= 1 and not is_prefix(r, a) and not is_prefix(r, b))
    ensures(implies(decr_spec(a, r) == decr_spec(b, r), a == b))
