"""Rule schemas of the 15 primitive inference rules of holpy's kernel (textbook HOL sequent rules),
written independently of kernel/thm.py with explicit constructors.  Sets of hypotheses are sets."""
from spec.api import implies, iff, ite, lemma, requires, ensures, decreases
from kernel.term import Term, SVar, Var, Const, Comb, Abs, Bound
from kernel.type import Type, STVar, TVar, TConst
from spec.terms import bool_ty, fun_ty, abstract, abstract_ok, ty_of, inst_bound, is_variable, fv, is_app


def implies_c() -> 'Term':
    return Const('implies', fun_ty(bool_ty(), fun_ty(bool_ty(), bool_ty())))


def mk_implies(A: 'Term', B: 'Term') -> 'Term':
    return Comb(Comb(implies_c(), A), B)


def mk_eq(T: 'Type', s: 'Term', t: 'Term') -> 'Term':
    return Comb(Comb(Const('equals', fun_ty(T, fun_ty(T, bool_ty()))), s), t)


def mk_lambda(x: 'Term', body: 'Term') -> 'Term':
    return Abs('_', x.T, abstract(body, 0, x))


def mk_forall(x: 'Term', body: 'Term') -> 'Term':
    return Comb(Const('all', fun_ty(fun_ty(x.T, bool_ty()), bool_ty())), mk_lambda(x, body))


def is_imp(t: 'Term') -> bool:
    """t has the shape `implies A B` (constant recognised by name, as the kernel does)."""
    return is_app(t, 'implies', 2)


def is_eq(t: 'Term') -> bool:
    return is_app(t, 'equals', 2)


def is_all(t: 'Term') -> bool:
    return is_app(t, 'all', 1)


def lhs_of(t: 'Term') -> 'Term':
    return t.fun.arg


def rhs_of(t: 'Term') -> 'Term':
    return t.arg
