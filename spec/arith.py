"""Standard meaning of holpy's ground arithmetic terms (C05): numerals in binary form, of_nat,
Suc, plus, minus (truncated at nat), times, uminus, real_divide (x/0 = 0), at the types read off
from the constants' own type annotations."""
from spec.api import implies, iff, ite, lemma, requires, ensures, decreases, uninterpreted
from kernel.term import Term, SVar, Var, Const, Comb, Abs, Bound
from kernel.type import Type, STVar, TVar, TConst
from spec.terms import ty_of, is_app, head_of, nargs_of


def nat_ty() -> 'Type':
    return TConst('nat')


def int_ty() -> 'Type':
    return TConst('int')


def real_ty() -> 'Type':
    return TConst('real')


def numeric_ty(T: 'Type') -> bool:
    return T == nat_ty() or T == int_ty() or T == real_ty()


def fun1(a: 'Type', b: 'Type') -> 'Type':
    return TConst('fun', a, b)


def fun2(a: 'Type', b: 'Type', c: 'Type') -> 'Type':
    return TConst('fun', a, TConst('fun', b, c))


# ---------------------------------------------------------------- shapes (by name, as Term.is_* does)
def is_c(t: 'Term', name: str) -> bool:
    return t.is_const() and t.name == name


def is_un(t: 'Term', name: str) -> bool:
    """t = name x"""
    return t.is_comb() and is_c(t.fun, name)


def is_bin_op(t: 'Term', name: str) -> bool:
    """t = name x y"""
    return t.is_comb() and t.fun.is_comb() and is_c(t.fun.fun, name)


def is_bin(t: 'Term') -> bool:
    """Binary numeral shape: zero | one | bit0 b | bit1 b."""
    if is_c(t, 'zero') or is_c(t, 'one'):
        return True
    elif is_un(t, 'bit0') or is_un(t, 'bit1'):
        return is_bin(t.arg)
    else:
        return False


def bin_val(t: 'Term') -> int:
    if is_un(t, 'bit0'):
        return 2 * bin_val(t.arg)
    elif is_un(t, 'bit1'):
        return 2 * bin_val(t.arg) + 1
    elif is_c(t, 'one'):
        return 1
    else:
        return 0


def bin_typed(t: 'Term') -> bool:
    """Binary numeral whose constants are the declared ones (zero/one :: nat, bit0/bit1 :: nat => nat)."""
    if is_c(t, 'zero') or is_c(t, 'one'):
        return t.T == nat_ty()
    elif is_un(t, 'bit0') or is_un(t, 'bit1'):
        return t.fun.T == fun1(nat_ty(), nat_ty()) and bin_typed(t.arg)
    else:
        return False


# ---------------------------------------------------------------- typed ground arithmetic terms
def arith_ok(t: 'Term', T: 'Type') -> bool:
    """t is a ground arithmetic term of type T in which every operator occurs at a declared instance
    of its type (zero/one/plus/minus/times at nat, int, real; uminus at int, real; real_divide at real;
    Suc/bit0/bit1 at nat; of_nat :: nat => T)."""
    if is_c(t, 'zero') or is_c(t, 'one'):
        return t.T == T and numeric_ty(T)
    elif is_un(t, 'of_nat'):
        return t.fun.T == fun1(nat_ty(), T) and numeric_ty(T) and arith_ok(t.arg, nat_ty())
    elif is_un(t, 'bit0') or is_un(t, 'bit1'):
        return T == nat_ty() and t.fun.T == fun1(nat_ty(), nat_ty()) and arith_ok(t.arg, nat_ty())
    elif is_un(t, 'Suc'):
        return T == nat_ty() and t.fun.T == fun1(nat_ty(), nat_ty()) and arith_ok(t.arg, nat_ty())
    elif is_un(t, 'uminus'):
        return (T == int_ty() or T == real_ty()) and t.fun.T == fun1(T, T) and arith_ok(t.arg, T)
    elif is_un(t, 'of_int'):
        return T == real_ty() and t.fun.T == fun1(int_ty(), T) and arith_ok(t.arg, int_ty())
    elif is_un(t, 'real_inverse'):
        return T == real_ty() and t.fun.T == fun1(T, T) and arith_ok(t.arg, T)
    elif is_bin_op(t, 'plus') or is_bin_op(t, 'minus') or is_bin_op(t, 'times'):
        return numeric_ty(T) and t.fun.fun.T == fun2(T, T, T) and arith_ok(t.fun.arg, T) and arith_ok(t.arg, T)
    elif is_bin_op(t, 'real_divide'):
        return T == real_ty() and t.fun.fun.T == fun2(T, T, T) and arith_ok(t.fun.arg, T) and arith_ok(t.arg, T)
    else:
        return False


def den(t: 'Term', T: 'Type') -> 'real':
    """Value of the ground arithmetic term t of type T (meaningful when arith_ok(t, T))."""
    if is_c(t, 'zero'):
        return 0
    elif is_c(t, 'one'):
        return 1
    elif is_un(t, 'of_nat'):
        return den(t.arg, nat_ty())
    elif is_un(t, 'bit0'):
        return 2 * den(t.arg, nat_ty())
    elif is_un(t, 'bit1'):
        return 2 * den(t.arg, nat_ty()) + 1
    elif is_un(t, 'Suc'):
        return den(t.arg, nat_ty()) + 1
    elif is_un(t, 'uminus'):
        return 0 - den(t.arg, T)
    elif is_un(t, 'of_int'):
        return den(t.arg, int_ty())
    elif is_un(t, 'real_inverse'):
        if den(t.arg, T) == 0:
            return 0
        else:
            return 1 / den(t.arg, T)
    elif is_bin_op(t, 'plus'):
        return den(t.fun.arg, T) + den(t.arg, T)
    elif is_bin_op(t, 'times'):
        return den(t.fun.arg, T) * den(t.arg, T)
    elif is_bin_op(t, 'minus'):
        if T == nat_ty() and den(t.fun.arg, T) <= den(t.arg, T):
            return 0
        else:
            return den(t.fun.arg, T) - den(t.arg, T)
    elif is_bin_op(t, 'real_divide'):
        if den(t.arg, T) == 0:
            return 0
        elif den(t.arg, T) == 1:
            return den(t.fun.arg, T)
        else:
            return den(t.fun.arg, T) / den(t.arg, T)
    else:
        return 0


# ---------------------------------------------------------------- numerals as Term.is_number / dest_number see them
def nat_number_shape(t: 'Term') -> bool:
    return is_c(t, 'zero') or is_c(t, 'one') or (is_un(t, 'of_nat') and is_bin(t.arg))


def frac_shape(t: 'Term') -> bool:
    if is_bin_op(t, 'real_divide'):
        return nat_number_shape(t.fun.arg) and nat_number_shape(t.arg)
    else:
        return nat_number_shape(t)


def number_shape(t: 'Term') -> bool:
    if is_c(t, 'zero') or is_c(t, 'one'):
        return True
    elif is_un(t, 'uminus'):
        return frac_shape(t.arg)
    else:
        return frac_shape(t)


def num_val(t: 'Term') -> 'real':
    """What Term.dest_number computes on numeral shapes."""
    if is_c(t, 'zero'):
        return 0
    elif is_c(t, 'one'):
        return 1
    elif is_un(t, 'uminus'):
        return 0 - num_val(t.arg)
    elif is_bin_op(t, 'real_divide'):
        if num_val(t.arg) == 0:
            return 0
        elif num_val(t.arg) == 1:
            return num_val(t.fun.arg)
        else:
            return num_val(t.fun.arg) / num_val(t.arg)
    elif is_un(t, 'of_nat'):
        return bin_val(t.arg)
    else:
        return 0


def arith_wf(t: 'Term') -> bool:
    """t is a well-formed ground arithmetic term at its own type."""
    return arith_ok(t, ty_of(t, []))


@lemma
def den_bin(b: 'Term'):
    decreases(b)
    if b.is_comb():
        den_bin(b.arg)
    ensures(implies(is_bin(b), den(b, nat_ty()) == bin_val(b) and bin_val(b) >= 0))


@lemma
def num_den_nat(t: 'Term', T: 'Type'):
    if t.is_comb():
        den_bin(t.arg)
    ensures(implies(nat_number_shape(t), num_val(t) == den(t, T) and num_val(t) >= 0))


@lemma
def num_den_frac(t: 'Term', T: 'Type'):
    num_den_nat(t, T)
    if t.is_comb():
        num_den_nat(t.arg, T)
        if t.fun.is_comb():
            num_den_nat(t.fun.arg, T)
    ensures(implies(frac_shape(t), num_val(t) == den(t, T)))


@lemma
def num_den(t: 'Term', T: 'Type'):
    """On numeral shapes dest_number's value is the denotation (at any type T)."""
    num_den_frac(t, T)
    if t.is_comb():
        num_den_frac(t.arg, T)
    ensures(implies(number_shape(t), num_val(t) == den(t, T)))


@lemma
def arith_ok_type(t: 'Term', T: 'Type'):
    """A well-formed arithmetic term of type T has type T."""
    ensures(implies(arith_ok(t, T), ty_of(t, []) == T))


@uninterpreted
def gcd(a: 'real', b: 'real') -> int:
    """math.gcd: left uninterpreted (only is_frac_number's normal-form test depends on it, and the
    contracts of is_frac_number / is_number are stated one-directionally)."""
    import math
    return math.gcd(int(a), int(b))


def mk_neg(t: 'Term') -> 'Term':
    return Comb(Const('neg', fun1(TConst('bool'), TConst('bool'))), t)


def is_cmp(g: 'Term') -> bool:
    return is_bin_op(g, 'less') or is_bin_op(g, 'less_eq') or is_bin_op(g, 'greater') or \
        is_bin_op(g, 'greater_eq') or is_bin_op(g, 'equals')


def cmp_holds(g: 'Term', T: 'Type') -> bool:
    """Truth of the comparison g = `l op r` between ground arithmetic terms of type T."""
    if is_bin_op(g, 'less'):
        return den(g.fun.arg, T) < den(g.arg, T)
    elif is_bin_op(g, 'less_eq'):
        return den(g.fun.arg, T) <= den(g.arg, T)
    elif is_bin_op(g, 'greater'):
        return den(g.fun.arg, T) > den(g.arg, T)
    elif is_bin_op(g, 'greater_eq'):
        return den(g.fun.arg, T) >= den(g.arg, T)
    else:
        return den(g.fun.arg, T) == den(g.arg, T)


def strip_neg(g: 'Term') -> 'Term':
    if is_un(g, 'neg'):
        return g.arg
    else:
        return g


@uninterpreted
def pow_spec(x: 'real', n: 'real') -> 'real':
    """x ** n of Python numbers; left uninterpreted (terms with `power` are outside arith_ok)."""
    return x ** n


def arith_shape(t: 'Term') -> bool:
    """t is built from the arithmetic operators handled by `den` (shapes only, no typing)."""
    if is_c(t, 'zero') or is_c(t, 'one'):
        return True
    elif is_un(t, 'of_nat') or is_un(t, 'bit0') or is_un(t, 'bit1') or is_un(t, 'Suc') or is_un(t, 'uminus') or \
            is_un(t, 'of_int') or is_un(t, 'real_inverse'):
        return arith_shape(t.arg)
    elif is_bin_op(t, 'plus') or is_bin_op(t, 'minus') or is_bin_op(t, 'times') or is_bin_op(t, 'real_divide'):
        return arith_shape(t.fun.arg) and arith_shape(t.arg)
    else:
        return False


@lemma
def arith_ok_shape(t: 'Term', T: 'Type'):
    decreases(t)
    if t.is_comb():
        arith_ok_shape(t.arg, T)
        arith_ok_shape(t.arg, nat_ty())
        arith_ok_shape(t.arg, int_ty())
        if t.fun.is_comb():
            arith_ok_shape(t.fun.arg, T)
    ensures(implies(arith_ok(t, T), arith_shape(t)))


def true_c() -> 'Term':
    return Const('true', TConst('bool'))


def false_c() -> 'Term':
    return Const('false', TConst('bool'))


def mk_iff(a: 'Term', b: 'Term') -> 'Term':
    return Comb(Comb(Const('equals', fun2(TConst('bool'), TConst('bool'), TConst('bool'))), a), b)
