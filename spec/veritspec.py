"""Specification of the pivot search of smt/veriT/verit_macro.try_resolve (C18).

Literals are pairs (atom index, number of negations) as resolve_order builds them."""


def compl_left(p: 'tuple[int,int]', q: 'tuple[int,int]') -> bool:
    """q is p with one more negation"""
    return p[0] == q[0] and p[1] + 1 == q[1]


def compl_right(p: 'tuple[int,int]', q: 'tuple[int,int]') -> bool:
    """p is q with one more negation"""
    return p[0] == q[0] and p[1] == q[1] + 1


def row_has_from(p: 'tuple[int,int]', prop2: 'seq[tuple[int,int]]', j: int) -> bool:
    """some literal of prop2 at position >= j is complementary to p"""
    if j < 0 or j >= len(prop2):
        return False
    else:
        return compl_left(p, prop2[j]) or compl_right(p, prop2[j]) or row_has_from(p, prop2, j + 1)


def pivot_from(prop1: 'seq[tuple[int,int]]', i: int, prop2: 'seq[tuple[int,int]]') -> bool:
    """some literal of prop1 at position >= i has a complementary literal in prop2"""
    if i < 0 or i >= len(prop1):
        return False
    else:
        return row_has_from(prop1[i], prop2, 0) or pivot_from(prop1, i + 1, prop2)
