"""Specification of the pivot search of smt/veriT/verit_macro.try_resolve (C18).

Literals are pairs (atom index, number of negations) as resolve_order builds them."""


def compl_left(p: 'tuple[int,int]', q: 'tuple[int,int]') -> bool:
    """q is p with one more negation"""
    return p[0] == q[0] and p[1] + 1 == q[1]


def compl_right(p: 'tuple[int,int]', q: 'tuple[int,int]') -> bool:
    """p is q with one more negation"""
    return p[0] == q[0] and p[1] == q[1] + 1


def row_has_from(p: 'tuple[int,int]', prop2: 'seq[tuple[int,int]]', j: int) -> bool:
    """some literal of prop2 at position >= j is complementary to p"""
    if j < 0 or j >= len(prop2):
        return False
    else:
        return compl_left(p, prop2[j]) or compl_right(p, prop2[j]) or row_has_from(p, prop2, j + 1)


def pivot_from(prop1: 'seq[tuple[int,int]]', i: int, prop2: 'seq[tuple[int,int]]') -> bool:
    """some literal of prop1 at position >= i has a complementary literal in prop2"""
    if i < 0 or i >= len(prop1):
        return False
    else:
        return row_has_from(prop1[i], prop2, 0) or pivot_from(prop1, i + 1, prop2)


# ---------------------------------------------------------------- propositional semantics of clauses (C18)
# A *valuation* gives a truth value to every term that is not built by a Boolean connective
# (`atomv`, uninterpreted: a verification condition that is valid is valid for every valuation).
# Every standard model of HOL induces such a valuation on closed Boolean terms whose connective
# constants have their declared types (assumption A1b), and `pv` then computes the truth value of
# the term in that model. Hence: pv(t) for every valuation  ==>  t is true in every standard model.
# Equality at a type other than bool is an atom, except that `a = a` is true (sound: a super-set of
# the valuations induced by models).
from spec.api import uninterpreted, implies, iff, lemma, requires, ensures, decreases
from kernel.term import Term, SVar, Var, Const, Comb, Abs, Bound
from kernel.type import Type, STVar, TVar, TConst
from spec.terms import bool_ty, fun_ty


@uninterpreted
def atomv(t: 'Term') -> bool:
    """truth value of an atom under the (arbitrary) valuation"""
    return True


def un_c(t: 'Term', name: str) -> bool:
    """t = c a for the constant c called `name`"""
    return t.is_comb() and t.fun.is_const() and t.fun.name == name


def bin_c(t: 'Term', name: str) -> bool:
    """t = c a b for the constant c called `name`"""
    return t.is_comb() and t.fun.is_comb() and t.fun.fun.is_const() and t.fun.fun.name == name


def tern_c(t: 'Term', name: str) -> bool:
    return t.is_comb() and t.fun.is_comb() and t.fun.fun.is_comb() and t.fun.fun.fun.is_const() and \
        t.fun.fun.fun.name == name


def bool_eq_c(t: 'Term') -> bool:
    """t = (a = b) where the equality constant is annotated at type bool"""
    return bin_c(t, 'equals') and t.fun.fun.T == fun_ty(bool_ty(), fun_ty(bool_ty(), bool_ty()))


def bool_ite_c(t: 'Term') -> bool:
    return tern_c(t, 'IF') and \
        t.fun.fun.fun.T == fun_ty(bool_ty(), fun_ty(bool_ty(), fun_ty(bool_ty(), bool_ty())))


def pv(t: 'Term') -> bool:
    """truth value of the Boolean term t under the valuation atomv"""
    if bin_c(t, 'conj'):
        return pv(t.fun.arg) and pv(t.arg)
    elif bin_c(t, 'disj'):
        return pv(t.fun.arg) or pv(t.arg)
    elif bin_c(t, 'implies'):
        return (not pv(t.fun.arg)) or pv(t.arg)
    elif un_c(t, 'neg'):
        return not pv(t.arg)
    elif bin_c(t, 'xor'):
        return pv(t.fun.arg) != pv(t.arg)
    elif bool_eq_c(t):
        return pv(t.fun.arg) == pv(t.arg)
    elif bin_c(t, 'equals'):
        return t.fun.arg == t.arg or atomv(t)
    elif bool_ite_c(t):
        return (pv(t.fun.fun.arg) and pv(t.fun.arg)) or ((not pv(t.fun.fun.arg)) and pv(t.arg))
    elif t.is_const() and t.name == 'true':
        return True
    elif t.is_const() and t.name == 'false':
        return False
    else:
        return atomv(t)


def pv_any(ts: 'seq[Term]', i: int) -> bool:
    """some member of ts at position >= i is true"""
    if i < 0 or i >= len(ts):
        return False
    else:
        return pv(ts[i]) or pv_any(ts, i + 1)


def pv_all(ts: 'seq[Term]', i: int) -> bool:
    """every member of ts at position >= i is true"""
    if i < 0 or i >= len(ts):
        return True
    else:
        return pv(ts[i]) and pv_all(ts, i + 1)


def bool2() -> 'Type':
    return fun_ty(bool_ty(), fun_ty(bool_ty(), bool_ty()))


def mk_disj(a: 'Term', b: 'Term') -> 'Term':
    return Comb(Comb(Const('disj', bool2()), a), b)


def mk_conj(a: 'Term', b: 'Term') -> 'Term':
    return Comb(Comb(Const('conj', bool2()), a), b)


def mk_not(a: 'Term') -> 'Term':
    return Comb(Const('neg', fun_ty(bool_ty(), bool_ty())), a)


def disj_of(ts: 'seq[Term]', i: int) -> 'Term':
    """ts[i] | (ts[i+1] | ... | ts[-1]), right nested (0 <= i < len(ts))"""
    if i < 0 or i + 1 >= len(ts):
        return ts[len(ts) - 1]
    else:
        return mk_disj(ts[i], disj_of(ts, i + 1))


def conj_of(ts: 'seq[Term]', i: int) -> 'Term':
    if i < 0 or i + 1 >= len(ts):
        return ts[len(ts) - 1]
    else:
        return mk_conj(ts[i], conj_of(ts, i + 1))


@lemma
def pv_disj_of(ts: 'seq[Term]', i: int):
    requires(0 <= i and i < len(ts))
    decreases(len(ts) - i)
    if i + 1 < len(ts):
        pv_disj_of(ts, i + 1)
    ensures(pv(disj_of(ts, i)) == pv_any(ts, i))


@lemma
def pv_conj_of(ts: 'seq[Term]', i: int):
    requires(0 <= i and i < len(ts))
    decreases(len(ts) - i)
    if i + 1 < len(ts):
        pv_conj_of(ts, i + 1)
    ensures(pv(conj_of(ts, i)) == pv_all(ts, i))


# ---------------------------------------------------------------- well-formedness of the input clauses (assumption A1b
# made a precondition): the connective constants occur at their declared types, the term is a
# well-typed Boolean.  (The rule evaluations are only ever given type-checked terms of the veriT proof
# parser; on ill-typed input such as `~(a = b) | a | ~b` with a, b naturals "consequence" means nothing.)
from spec.terms import wt, ty_of


def const_ok(c: 'Term') -> bool:
    """a constant named like a connective has the connective's declared type"""
    if c.name == 'conj' or c.name == 'disj' or c.name == 'implies' or c.name == 'xor':
        return c.T == bool2()
    elif c.name == 'neg':
        return c.T == fun_ty(bool_ty(), bool_ty())
    elif c.name == 'true' or c.name == 'false':
        return c.T == bool_ty()
    elif c.name == 'equals':
        return c.T.is_tconst() and c.T.name == 'fun' and len(c.T.args) == 2 and \
            c.T == fun_ty(c.T.args[0], fun_ty(c.T.args[0], bool_ty()))
    elif c.name == 'IF':
        return c.T.is_tconst() and c.T.name == 'fun' and len(c.T.args) == 2 and c.T.args[1].is_tconst() and \
            c.T.args[1].name == 'fun' and len(c.T.args[1].args) == 2 and \
            c.T == fun_ty(bool_ty(), fun_ty(c.T.args[1].args[0], fun_ty(c.T.args[1].args[0], c.T.args[1].args[0])))
    else:
        return True


def consts_ok(t: 'Term') -> bool:
    if t.is_comb():
        return consts_ok(t.fun) and consts_ok(t.arg)
    elif t.is_abs():
        return consts_ok(t.body)
    elif t.is_const():
        return const_ok(t)
    else:
        return True


def wfb(t: 'Term') -> bool:
    """t is a well-typed Boolean term whose connectives have their declared types"""
    return wt(t, []) and ty_of(t, []) == bool_ty() and consts_ok(t)


def wfb_all(ts: 'seq[Term]', i: int) -> bool:
    if i < 0 or i >= len(ts):
        return True
    else:
        return wfb(ts[i]) and wfb_all(ts, i + 1)


def mk_eqT(T: 'Type', a: 'Term', b: 'Term') -> 'Term':
    """a = b with the equality constant annotated T"""
    return Comb(Comb(Const('equals', T), a), b)


@lemma
def sem_equiv_pos2(T: 'Type', a: 'Term', b: 'Term'):
    requires(wfb(mk_disj(mk_not(mk_eqT(T, a, b)), mk_disj(mk_not(a), b))))
    ensures(pv(mk_disj(mk_not(mk_eqT(T, a, b)), mk_disj(mk_not(a), b))))


# ---------------------------------------------------------------- n-ary disjunctions / conjunctions
def sd(t: 'Term') -> 'seq[Term]':
    """members of the right-nested disjunction t (what Term.strip_disj returns)"""
    if bin_c(t, 'disj'):
        return [t.fun.arg] + sd(t.arg)
    else:
        return [t]


def sc(t: 'Term') -> 'seq[Term]':
    """members of the right-nested conjunction t (what Term.strip_conj returns)"""
    if bin_c(t, 'conj'):
        return [t.fun.arg] + sc(t.arg)
    else:
        return [t]


@lemma
def pv_any_at(ts: 'seq[Term]', i: int, j: int):
    """a true member at position j >= i makes the disjunction from i on true"""
    requires(0 <= i and i <= j and j < len(ts))
    decreases(j - i)
    if i < j:
        pv_any_at(ts, i + 1, j)
    ensures(implies(pv(ts[j]), pv_any(ts, i)))


@lemma
def pv_all_at(ts: 'seq[Term]', i: int, j: int):
    requires(0 <= i and i <= j and j < len(ts))
    decreases(j - i)
    if i < j:
        pv_all_at(ts, i + 1, j)
    ensures(implies(pv_all(ts, i), pv(ts[j])))


def pv_anyl(ts: 'seq[Term]') -> bool:
    """some member of ts is true (head / tail recursion)"""
    if len(ts) == 0:
        return False
    else:
        return pv(ts[0]) or pv_anyl(ts[1:])


@lemma
def pv_sdl(t: 'Term'):
    decreases(t)
    if bin_c(t, 'disj'):
        pv_sdl(t.arg)
        assert sd(t) == [t.fun.arg] + sd(t.arg)
        assert sd(t)[0] == t.fun.arg
        assert sd(t)[1:] == sd(t.arg)
        assert pv_anyl(sd(t)) == (pv(t.fun.arg) or pv_anyl(sd(t.arg)))
    ensures(pv_anyl(sd(t)) == pv(t) and len(sd(t)) >= 1)


@lemma
def pv_anyl_at(ts: 'seq[Term]', j: int):
    requires(0 <= j and j < len(ts))
    decreases(j)
    if j > 0:
        pv_anyl_at(ts[1:], j - 1)
    ensures(implies(pv(ts[j]), pv_anyl(ts)))


@lemma
def slice_tail(ts: 'seq[Term]', i: int):
    requires(0 <= i and i < len(ts))
    ensures(len(ts[i:]) == len(ts) - i)
    ensures(ts[i:][0] == ts[i])
    ensures(ts[i:][1:] == ts[i + 1:])


@lemma
def pv_anyl_any(ts: 'seq[Term]', i: int):
    """the two styles agree"""
    requires(0 <= i and i <= len(ts))
    decreases(len(ts) - i)
    if i < len(ts):
        pv_anyl_any(ts, i + 1)
        slice_tail(ts, i)
        assert pv_anyl(ts[i:]) == (pv(ts[i]) or pv_anyl(ts[i + 1:]))
    else:
        assert len(ts[i:]) == 0
    ensures(pv_anyl(ts[i:]) == pv_any(ts, i))


def pv_alll(ts: 'seq[Term]') -> bool:
    """every member of ts is true (head / tail recursion)"""
    if len(ts) == 0:
        return True
    else:
        return pv(ts[0]) and pv_alll(ts[1:])


@lemma
def pv_scl(t: 'Term'):
    decreases(t)
    if bin_c(t, 'conj'):
        pv_scl(t.arg)
        assert sc(t) == [t.fun.arg] + sc(t.arg)
        assert sc(t)[0] == t.fun.arg
        assert sc(t)[1:] == sc(t.arg)
        assert pv_alll(sc(t)) == (pv(t.fun.arg) and pv_alll(sc(t.arg)))
    ensures(pv_alll(sc(t)) == pv(t) and len(sc(t)) >= 1)


@lemma
def pv_alll_all(ts: 'seq[Term]', i: int):
    requires(0 <= i and i <= len(ts))
    decreases(len(ts) - i)
    if i < len(ts):
        pv_alll_all(ts, i + 1)
        slice_tail(ts, i)
        assert pv_alll(ts[i:]) == (pv(ts[i]) and pv_alll(ts[i + 1:]))
    else:
        assert len(ts[i:]) == 0
    ensures(pv_alll(ts[i:]) == pv_all(ts, i))


@lemma
def pv_sd0(t: 'Term'):
    """the members of a disjunction, as a clause, mean what the disjunction means"""
    pv_sdl(t)
    pv_anyl_any(sd(t), 0)
    assert sd(t)[0:] == sd(t)
    ensures(pv_any(sd(t), 0) == pv(t) and len(sd(t)) >= 1)


@lemma
def pv_sc0(t: 'Term'):
    pv_scl(t)
    pv_alll_all(sc(t), 0)
    assert sc(t)[0:] == sc(t)
    ensures(pv_all(sc(t), 0) == pv(t) and len(sc(t)) >= 1)


@lemma
def pv_anyl0(ts: 'seq[Term]'):
    pv_anyl_any(ts, 0)
    assert ts[0:] == ts
    ensures(pv_anyl(ts) == pv_any(ts, 0))


@lemma
def pv_anyl_cons(a: 'Term', s: 'seq[Term]'):
    assert ([a] + s)[0] == a
    assert ([a] + s)[1:] == s
    ensures(pv_anyl([a] + s) == (pv(a) or pv_anyl(s)))


@lemma
def pv_any_tail(ts: 'seq[Term]'):
    """the clause without its first literal, index style"""
    requires(len(ts) >= 1)
    pv_anyl_any(ts, 1)
    pv_anyl0(ts[1:])
    ensures(pv_any(ts[1:], 0) == pv_any(ts, 1))


# ---------------------------------------------------------------- membership (and_pos, and_neg, contraction)
def meml(ts: 'seq[Term]', x: 'Term') -> bool:
    """x is a member of ts (head / tail recursion)"""
    if len(ts) == 0:
        return False
    else:
        return ts[0] == x or meml(ts[1:], x)


@lemma
def pv_alll_mem(ts: 'seq[Term]', x: 'Term'):
    """a member of a list of true formulas is true"""
    requires(meml(ts, x))
    decreases(len(ts))
    if len(ts) > 0:
        if ts[0] != x:
            pv_alll_mem(ts[1:], x)
    ensures(implies(pv_alll(ts), pv(x)))


@lemma
def pv_anyl_mem(ts: 'seq[Term]', x: 'Term'):
    """a true member makes the clause true"""
    requires(meml(ts, x))
    decreases(len(ts))
    if len(ts) > 0:
        if ts[0] != x:
            pv_anyl_mem(ts[1:], x)
    ensures(implies(pv(x), pv_anyl(ts)))


@lemma
def pv_alll_sub(ss: 'seq[Term]', ts: 'seq[Term]'):
    """if every member of ss is a member of ts and all of ts are true, all of ss are true"""
    requires(set(ts).issuperset(set(ss)))
    decreases(len(ss))
    if len(ss) > 0:
        assert ss[0] in ss
        assert ss[0] in ts
        pv_alll_mem(ts, ss[0])
        pv_alll_sub(ss[1:], ts)
    ensures(implies(pv_alll(ts), pv_alll(ss)))


@lemma
def pv_anyl_snoc(s: 'seq[Term]', a: 'Term'):
    """a clause extended at the end"""
    decreases(len(s))
    if len(s) > 0:
        pv_anyl_snoc(s[1:], a)
        assert (s + [a])[0] == s[0]
        assert (s + [a])[1:] == s[1:] + [a]
    else:
        assert (s + [a])[0] == a
        assert len((s + [a])[1:]) == 0
    ensures(pv_anyl(s + [a]) == (pv_anyl(s) or pv(a)))


@lemma
def pv_anyl_snoc2(s: 'seq[Term]', a: 'Term', b: 'Term'):
    """a clause extended by one and by two literals"""
    pv_anyl_snoc(s, a)
    pv_anyl_snoc(s + [a], b)
    ensures(pv_anyl(s + [a]) == (pv_anyl(s) or pv(a)))
    ensures(pv_anyl(s + [a] + [b]) == (pv_anyl(s) or pv(a) or pv(b)))
