"""Native counterparts of the pyvc specification primitives (so that spec functions and
contract clauses can be executed on real objects when a counterexample is replayed)."""


def implies(a, b):
    return (not a) or bool(b)


def iff(a, b):
    return bool(a) == bool(b)


def ite(c, a, b):
    return a if c else b


def requires(c):
    assert c, "lemma precondition does not hold natively"


def ensures(c):
    assert c, "lemma conclusion does not hold natively"


def decreases(*a):
    pass


def lemma(f):
    return f


def native(f):
    return f


def uninterpreted(f):
    return f


def contract(qualname):
    def deco(cls):
        cls.__contract__ = qualname
        return cls
    return deco


# ---- set helpers (tuples of hypotheses are treated as sets) ----
def as_set(x):
    return frozenset(x)


def set_remove(s, x):
    return frozenset(y for y in s if y != x)


def set_union(a, b):
    return frozenset(a) | frozenset(b)


def subset(a, b):
    return frozenset(a) <= frozenset(b)


def member(x, s):
    return x in s


def empty_set(kind=None):
    return frozenset()


def seq_map(f, xs, *extras):
    return [f(x, *extras) for x in xs]


def mk_tconst(name, args):
    from kernel.type import TConst
    return TConst(name, *args)


def bounded(n):
    def deco(f):
        return f
    return deco


class _LamArr:
    """Native counterpart of arr_lambda: indexable total function."""
    def __init__(self, f, args):
        self.f, self.args = f, args

    def __getitem__(self, x):
        return self.f(*(list(self.args) + [x]))


def arr_lambda(f, *args):
    return _LamArr(f, args)


def forall(kind, fn):
    raise NotImplementedError('forall over an infinite domain cannot be evaluated natively')


def lemma_forall(lem):
    pass


def exists(kind, fn):
    raise NotImplementedError('exists over an infinite domain cannot be evaluated natively')
