"""Native counterparts of the pyvc specification primitives (so that spec functions and
contract clauses can be executed on real objects when a counterexample is replayed)."""


def implies(a, b):
    return (not a) or bool(b)


def iff(a, b):
    return bool(a) == bool(b)


def ite(c, a, b):
    return a if c else b


def requires(c):
    assert c, "lemma precondition does not hold natively"


def ensures(c):
    assert c, "lemma conclusion does not hold natively"


def decreases(*a):
    pass


def lemma(f):
    return f


def native(f):
    return f


def uninterpreted(f):
    return f


def contract(qualname):
    def deco(cls):
        cls.__contract__ = qualname
        return cls
    return deco
