"""Specification for prover/sat.py (C15): literals are (name, sign) pairs, clauses sequences (or sets)
of literals, assignments finite maps from names to truth values (partial)."""
from spec.api import implies, iff, ite, lemma, requires, ensures, decreases, exists


def lit_true(name: str, val: bool, a: 'map[str,bool]') -> bool:
    return name in a and a[name] == val


def clause_sat_from(clause: 'seq[tuple[str,bool]]', i: int, a: 'map[str,bool]') -> bool:
    """Some literal of the clause at position >= i is made true by the (partial) assignment."""
    if i < 0 or i >= len(clause):
        return False
    else:
        return lit_true(clause[i][0], clause[i][1], a) or clause_sat_from(clause, i + 1, a)


def clause_sat(clause: 'seq[tuple[str,bool]]', a: 'map[str,bool]') -> bool:
    return clause_sat_from(clause, 0, a)


def cnf_sat_from(cnf: 'seq[seq[tuple[str,bool]]]', i: int, a: 'map[str,bool]') -> bool:
    if i < 0 or i >= len(cnf):
        return True
    else:
        return clause_sat(cnf[i], a) and cnf_sat_from(cnf, i + 1, a)


def cnf_sat(cnf: 'seq[seq[tuple[str,bool]]]', a: 'map[str,bool]') -> bool:
    """Every clause is satisfied (is_solution's specification)."""
    return cnf_sat_from(cnf, 0, a)


def set_sat(clause: 'set[tuple[str,bool]]', a: 'map[str,bool]') -> bool:
    """A clause given as a set of literals is satisfied by a."""
    return exists('tuple[str,bool]', lambda l: l in clause and lit_true(l[0], l[1], a))
