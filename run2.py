import sys, json, time, os, importlib
sys.path.insert(0, '/verif')
from models.holpy import make_world
from pyvc.verify import verify_function, verify_lemma
w = make_world()
w.uf_mul = bool(os.environ.get("UF_MUL"))
w.feas_reduced = not os.environ.get("NO_FEAS_REDUCED")
for m in os.environ.get('MODELS', '').split(','):
    if m: importlib.import_module(m).declare(w)
for m in sys.argv[1].split(','):
    (w.load_specs if m.startswith('spec') else w.load_contracts)(m)
targets = sys.argv[2].split(',') if len(sys.argv) > 2 else [q for q in w.contracts]
for q in targets:
    if not q.startswith('lemma:') and (w.contracts[q].inline or w.contracts[q].trusted): continue
    r = verify_lemma(w, q[6:]) if q.startswith('lemma:') else verify_function(w, q)
    j = r.to_json()
    print('%-45s %-12s paths=%d normal=%d obl=%d ok=%d  %.2fs  %s' % (q, j['status'], j['paths'], j['normal_paths'], j['obligations'], j['discharged'], j['secs'], j['message'][:2500]))
    if j['normal_paths'] == 0: print('   RAISES', j['raise_paths'])
    for f in j['failed'][:3]:
        print("   FAILED", f["label"], f["path"], json.dumps(f["model"])[:600], "CLAIM", (f.get("claim") or '')[:300])
    for f in j['unknown'][:3]:
        print('   UNKNOWN', f['label'], f['path'], f['detail'])
    for o in r.obligations:
        if o['secs'] > 2: print('   SLOW %.1fs %s %s' % (o['secs'], o['label'], o['path'][-12:]))
