"""Contracts for kernel/proof.py: identifiers (C02, C13)."""
from spec.api import contract, implies, iff, ite
from spec.ids import nonneg, is_prefix, dep_ok, lex_lt_at, incr_after_spec, decr_spec


@contract("kernel.proof.ItemID.can_depend_on")
class can_depend_on:
    params = {'self': 'ItemID', 'other': 'ItemID'}
    returns = 'bool'


    def ensures(self, other, result):
        return result == dep_ok(self.id, other.id)


@contract("kernel.proof.ItemID.incr_id_after")
class incr_id_after:
    params = {'self': 'ItemID', 'start': 'ItemID', 'n': 'int'}
    returns = 'ItemID'

    def requires(self, start, n):
        return len(start.id) >= 1

    def ensures(self, start, n, result):
        return result.id == incr_after_spec(self.id, start.id, n)


@contract("kernel.proof.ItemID.decr_id")
class decr_id:
    params = {'self': 'ItemID', 'id_remove': 'ItemID'}
    returns = 'ItemID'

    def requires(self, id_remove):
        return len(id_remove.id) >= 1

    def ensures(self, id_remove, result):
        return result.id == decr_spec(self.id, id_remove.id)


@contract("kernel.proof.ItemID.incr_id")
class incr_id:
    params = {'self': 'ItemID', 'n': 'int'}
    returns = 'ItemID'

    def requires(self, n):
        return len(self.id) >= 1

    def ensures(self, n, result):
        return result.id == self.id[:len(self.id) - 1] + [self.id[len(self.id) - 1] + n]


@contract("kernel.proof.ItemID.last")
class last:
    params = {'self': 'ItemID'}
    returns = 'int'

    def ensures(self, result):
        return len(self.id) >= 1 and result == self.id[len(self.id) - 1]


@contract("kernel.proof.ItemID.__eq__")
class id_eq:
    params = {'self': 'ItemID', 'other': 'ItemID'}
    returns = 'bool'

    def ensures(self, other, result):
        return result == (self.id == other.id)
