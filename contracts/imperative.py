"""Contracts for imperative/expr.py (C20): the semantic substitution lemma on the real Expr.subst."""
from spec.api import contract, implies, iff, ite, arr_lambda, forall, lemma_forall
from imperative.expr import Expr, Var, ArrayElt, Field, Const, Op, Fun, ITE, Forall
from spec.imp import no_forall, no_forall_list, evi, evb, upd_at, idents_untouched, idents_untouched_list, is_int_expr, is_bool_expr, no_forall_nth, idents_nth


@contract("imperative.expr.Expr.subst")
class expr_subst:
    """Virtual contract of Expr.subst, against which every override is verified: evaluating the substituted
    expression in a state equals evaluating the original in the state updated by the assignment."""
    params = {'self': 'Expr', 'inst': 'map[str,Expr]'}
    returns = 'Expr'
    raises = ['NotImplementedError']
    ghost = {'ints': 'arr[str,int]', 'arrs': 'arr[str,arr[int,int]]', 'lens': 'arr[str,int]',
             'ints2': 'arr[str,int]'}

    def requires(self, inst):
        return no_forall(self) and idents_untouched(self, inst)

    def hint(self):
        lemma_forall(no_forall_nth)
        lemma_forall(idents_nth)

    # ints2 is the state after the simultaneous assignment inst (right-hand sides evaluated in the old state)
    def ensures_int(self, inst, ints, arrs, lens, ints2, result):
        return implies(forall('str', lambda x: ints2[x] == upd_at(inst, ints, arrs, lens, x)) and
                       is_int_expr(self),
                       evi(result, ints, arrs, lens) == evi(self, ints2, arrs, lens))

    def ensures_bool(self, inst, ints, arrs, lens, ints2, result):
        # for boolean expressions (variables are integer variables, so a Var is not one)
        return implies(forall('str', lambda x: ints2[x] == upd_at(inst, ints, arrs, lens, x)) and
                       is_bool_expr(self),
                       evb(result, ints, arrs, lens) == evb(self, ints2, arrs, lens))

    def ensures_untouched_var(self, inst, result):
        # a variable that is not assigned stays as it is (array identifiers rely on this)
        return implies(isinstance(self, Var) and self.name not in inst, result == self)

    def decreases(self):
        return self


@contract("imperative.expr.Var.subst")
class var_subst:
    inherits = "imperative.expr.Expr.subst"


@contract("imperative.expr.ArrayElt.subst")
class arrayelt_subst:
    inherits = "imperative.expr.Expr.subst"


@contract("imperative.expr.Field.subst")
class field_subst:
    inherits = "imperative.expr.Expr.subst"


@contract("imperative.expr.Const.subst")
class const_subst:
    inherits = "imperative.expr.Expr.subst"


@contract("imperative.expr.Op.subst")
class op_subst:
    inherits = "imperative.expr.Expr.subst"


@contract("imperative.expr.Fun.subst")
class fun_subst:
    inherits = "imperative.expr.Expr.subst"


@contract("imperative.expr.ITE.subst")
class ite_subst:
    inherits = "imperative.expr.Expr.subst"
