"""Contracts for numerals (kernel/term.py) and the trusted evaluators of data/nat.py, data/integer.py (C05)."""
from spec.api import contract, implies, iff, ite
from spec.terms import ty_of, head_of, nargs_of
from spec.arith import (is_c, is_un, is_bin_op, is_bin, bin_val, arith_ok, arith_wf, den, nat_ty, int_ty, real_ty,
                        nat_number_shape, frac_shape, number_shape, num_val, den_bin, num_den, arith_ok_type,
                        mk_neg, is_cmp, cmp_holds, strip_neg, arith_shape, arith_ok_shape,
                        true_c, false_c, mk_iff)
from spec.thm import is_eq, lhs_of, rhs_of, mk_eq


@contract("kernel.term.Term.is_binary")
class is_binary:
    params = {'self': 'Term'}
    returns = 'bool'

    def ensures(self, result):
        return result == is_bin(self)

    def decreases(self):
        return self


@contract("kernel.term.Term.dest_binary")
class dest_binary:
    params = {'self': 'Term'}
    returns = 'int'
    raises = ['TermException']

    def ensures(self, result):
        return result == bin_val(self) and is_bin(self)

    def decreases(self):
        return self


@contract("kernel.term.Term.is_nat_number")
class is_nat_number:
    params = {'self': 'Term'}
    returns = 'bool'

    def ensures(self, result):
        return result == nat_number_shape(self)


@contract("kernel.term.Term.dest_number")
class dest_number:
    params = {'self': 'Term'}
    returns = 'real'
    raises = ['TermException']

    def ensures(self, result):
        return result == num_val(self)

    def decreases(self):
        return self


@contract("kernel.term.Term.is_frac_number")
class is_frac_number:
    params = {'self': 'Term'}
    returns = 'bool'

    def ensures(self, result):
        return implies(result, frac_shape(self))


@contract("kernel.term.Term.is_number")
class is_number:
    params = {'self': 'Term'}
    returns = 'bool'

    def ensures(self, result):
        return implies(result, number_shape(self))


@contract("data.nat.nat_eval")
class nat_eval:
    params = {'t': 'Term'}
    returns = 'real'
    raises = ['ConvException', 'TermException']

    def hint(t):
        num_den(t, nat_ty())

    def ensures(t, result):
        return result == den(t, nat_ty())

    def decreases(t):
        return t


@contract("data.nat.nat_eval_macro.eval")
class nat_eval_macro_eval:
    params = {'self': 'none', 'goal': 'Term', 'prevs': 'seq[Thm]'}
    returns = 'Thm'

    def hint(goal):
        arith_ok_type(goal.fun.arg, nat_ty())

    def ensures_shape(goal, result):
        return result.prop == goal and is_eq(goal)

    def ensures_true(goal, result):
        # a well-formed arithmetic equation is accepted only at type nat and only if it is true
        return implies(arith_wf(lhs_of(goal)) and arith_wf(rhs_of(goal)) and
                       ty_of(lhs_of(goal), []) == ty_of(rhs_of(goal), []),
                       ty_of(lhs_of(goal), []) == nat_ty() and
                       den(lhs_of(goal), nat_ty()) == den(rhs_of(goal), nat_ty()))


@contract("data.integer.int_eval")
class int_eval:
    params = {'t': 'Term'}
    returns = 'real'
    raises = ['ConvException', 'TermException']

    def hint(t):
        num_den(t, int_ty())

    def ensures(t, result):
        return result == den(t, int_ty())

    def decreases(t):
        return t


@contract("data.integer.int_eval_macro.eval")
class int_eval_macro_eval:
    params = {'self': 'none', 'goal': 'Term', 'prevs': 'seq[Thm]'}
    returns = 'Thm'

    def ensures_shape(goal, result):
        return result.prop == goal and is_eq(goal)

    def ensures_true(goal, result):
        return implies(arith_wf(lhs_of(goal)) and arith_wf(rhs_of(goal)) and
                       ty_of(lhs_of(goal), []) == ty_of(rhs_of(goal), []),
                       ty_of(lhs_of(goal), []) == int_ty() and
                       den(lhs_of(goal), int_ty()) == den(rhs_of(goal), int_ty()))


@contract("kernel.term.Term.is_constant")
class is_constant:
    params = {'self': 'Term'}
    returns = 'bool'
    raises = ['AttributeError']

    def ensures(self, result):
        return True

    def decreases(self):
        return self


@contract("data.integer.int_const_ineq_macro.eval")
class int_const_ineq_eval:
    params = {'self': 'none', 'goal': 'Term', 'prevs': 'seq[Thm]'}
    returns = 'Thm'

    def ensures_shape(goal, result):
        return is_cmp(strip_neg(goal)) and \
            (result.prop == strip_neg(goal) or result.prop == mk_neg(strip_neg(goal)))

    def ensures_true(goal, result):
        # a comparison of well-formed ground arithmetic terms is decided only at type int, and correctly
        return implies(arith_wf(strip_neg(goal).fun.arg) and arith_wf(strip_neg(goal).arg) and
                       ty_of(strip_neg(goal).fun.arg, []) == ty_of(strip_neg(goal).arg, []),
                       ty_of(strip_neg(goal).fun.arg, []) == int_ty() and
                       (result.prop == strip_neg(goal)) == cmp_holds(strip_neg(goal), int_ty()))


@contract("data.real.real_eval.rec")
class real_eval_rec:
    params = {'t': 'Term'}
    returns = 'real'
    raises = ['ConvException', 'TermException']

    def hint(t):
        num_den(t, real_ty())

    def ensures(t, result):
        # shapes only: what real_eval computes is the real-typed reading of the term, whatever its types
        return implies(arith_shape(t), result == den(t, real_ty()))

    def decreases(t):
        return t


@contract("data.real.real_eval")
class real_eval:
    params = {'t': 'Term'}
    returns = 'real'
    raises = ['ConvException', 'TermException']

    def ensures(t, result):
        return implies(arith_shape(t), result == den(t, real_ty()))


@contract("data.real.real_eval_macro.eval")
class real_eval_macro_eval:
    params = {'self': 'none', 'goal': 'Term', 'prevs': 'seq[Thm]'}
    returns = 'Thm'

    def hint(goal):
        arith_ok_type(goal.fun.arg, real_ty())
        arith_ok_type(goal.arg, real_ty())
        arith_ok_shape(goal.fun.arg, ty_of(goal.fun.arg, []))
        arith_ok_shape(goal.arg, ty_of(goal.arg, []))

    def ensures_shape(goal, result):
        return result.prop == goal and is_eq(goal)

    def ensures_true(goal, result):
        return implies(arith_wf(lhs_of(goal)) and arith_wf(rhs_of(goal)) and
                       ty_of(lhs_of(goal), []) == ty_of(rhs_of(goal), []),
                       ty_of(lhs_of(goal), []) == real_ty() and
                       den(lhs_of(goal), real_ty()) == den(rhs_of(goal), real_ty()))


@contract("data.real.RealCompareMacro.eval")
class real_compare_eval:
    params = {'self': 'none', 'goal': 'Term', 'prevs': 'seq[Thm]'}
    returns = 'Thm'

    def hint(goal):
        arith_ok_type(goal.fun.arg, real_ty())
        arith_ok_type(goal.arg, real_ty())
        arith_ok_shape(goal.fun.arg, ty_of(goal.fun.arg, []))
        arith_ok_shape(goal.arg, ty_of(goal.arg, []))

    def ensures_shape(goal, result):
        return result.prop == goal and is_cmp(goal) and not is_bin_op(goal, 'equals')

    def ensures_true(goal, result):
        return implies(arith_wf(goal.fun.arg) and arith_wf(goal.arg) and
                       ty_of(goal.fun.arg, []) == ty_of(goal.arg, []),
                       ty_of(goal.fun.arg, []) == real_ty() and cmp_holds(goal, real_ty()))


@contract("data.real.real_const_ineq_macro.eval")
class real_const_ineq_eval:
    params = {'self': 'none', 'goal': 'Term', 'prevs': 'seq[Thm]'}
    returns = 'Thm'

    def hint(goal):
        arith_ok_type(strip_neg(goal).fun.arg, real_ty())
        arith_ok_type(strip_neg(goal).arg, real_ty())
        arith_ok_shape(strip_neg(goal).fun.arg, ty_of(strip_neg(goal).fun.arg, []))
        arith_ok_shape(strip_neg(goal).arg, ty_of(strip_neg(goal).arg, []))

    def ensures_shape(goal, result):
        return is_cmp(strip_neg(goal)) and \
            (result.prop == strip_neg(goal) or result.prop == mk_neg(strip_neg(goal)))

    def ensures_true(goal, result):
        return implies(arith_wf(strip_neg(goal).fun.arg) and arith_wf(strip_neg(goal).arg) and
                       ty_of(strip_neg(goal).fun.arg, []) == ty_of(strip_neg(goal).arg, []),
                       ty_of(strip_neg(goal).fun.arg, []) == real_ty() and
                       (result.prop == strip_neg(goal)) == cmp_holds(strip_neg(goal), real_ty()))


@contract("kernel.term.Term.get_vars")
class get_vars:
    params = {'self': 'Term'}
    returns = 'seq[Term]'
    trusted = True
    note = '(trivially true contract: only the list length is used by callers under contract)'

    def ensures(self, result):
        return True


@contract("data.real.RealEqMacro.eval")
class real_const_eq_eval:
    params = {'self': 'none', 'goal': 'Term', 'prevs': 'opt[seq[Thm]]'}
    returns = 'Thm'
    raises = ['ConvException']

    def hint(goal):
        arith_ok_type(goal.fun.arg, real_ty())
        arith_ok_type(goal.arg, real_ty())
        arith_ok_shape(goal.fun.arg, ty_of(goal.fun.arg, []))
        arith_ok_shape(goal.arg, ty_of(goal.arg, []))

    def ensures_shape(goal, result):
        return is_cmp(goal) and (result.prop == mk_eq(ty_of(goal, []), goal, true_c()) or
                                 result.prop == mk_eq(ty_of(goal, []), goal, false_c()))

    def ensures_true(goal, result):
        return implies(arith_wf(goal.fun.arg) and arith_wf(goal.arg) and
                       ty_of(goal.fun.arg, []) == ty_of(goal.arg, []),
                       ty_of(goal.fun.arg, []) == real_ty() and
                       (result.prop == mk_eq(ty_of(goal, []), goal, true_c())) == cmp_holds(goal, real_ty()))
