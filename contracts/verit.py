"""Contracts for smt/veriT/verit_macro.py (C18): the pivot search of resolution."""
from spec.api import contract, implies
from spec.veritspec import compl_left, compl_right, row_has_from, pivot_from


@contract("smt.veriT.verit_macro.try_resolve")
class try_resolve:
    params = {'prop1': 'seq[tuple[int,int]]', 'prop2': 'seq[tuple[int,int]]'}
    returns = 'opt[tuple[str,int,int]]'

    def ensures_found(prop1, prop2, result):
        # a returned pivot is a pair of positions holding complementary literals, tagged with the side
        # that carries the extra negation
        if result is None:
            return True
        else:
            return 0 <= result[1] and result[1] < len(prop1) and 0 <= result[2] and result[2] < len(prop2) and \
                ((result[0] == 'left' and compl_left(prop1[result[1]], prop2[result[2]])) or
                 (result[0] == 'right' and compl_right(prop1[result[1]], prop2[result[2]])))

    def ensures_complete(prop1, prop2, result):
        # None is returned only if no pair of complementary literals exists
        return (result is None) == (not pivot_from(prop1, 0, prop2))

    def invariant0(prop1, prop2, _i):
        return pivot_from(prop1, 0, prop2) == pivot_from(prop1, _i, prop2)

    def invariant1(prop1, prop2, i, ai, ni, _i):
        return 0 <= i and i < len(prop1) and ai == prop1[i][0] and ni == prop1[i][1] and \
            row_has_from(prop1[i], prop2, 0) == row_has_from(prop1[i], prop2, _i)
