"""Contracts for kernel/term.py (side-car; read by pyvc through `ast`, importable for replay)."""
from spec.api import contract, implies, iff, ite
from spec.terms import (tsize, loose, lift, inst_bound, fv, fv_name, same_var, abstract, abstract_ok,
                        head_of, nargs_of, args_of, is_app, is_app_any, is_variable, lift_closed,
                        ty_of, wt, weak_wt, is_fun_ty, fun_ty, bool_ty, rargs_of, rev_Term, rev_rargs, len_args, args_small, app_shapes)


@contract("kernel.term.Term.size")
class size:
    params = {'self': 'Term'}
    returns = 'int'

    def ensures(self, result):
        return result == tsize(self) and result >= 1

    def decreases(self):
        return self


@contract("kernel.term.Term.is_comb")
class is_comb:
    params = {'self': 'Term', 'name': 'opt[str]', 'nargs': 'opt[int]'}
    returns = 'bool'
    inline_if_none = 'name'

    def ensures(self, name, nargs, result):
        return result == (self.is_comb() and
                          (name is None or (head_of(self).is_const() and head_of(self).name == name and
                                            (nargs is None or nargs_of(self) == nargs))))

    def hint(self):
        app_shapes(self)

    def ensures_shapes(self, name, nargs, result):
        # spines of length 1, 2, 3 spelled out, so that callers need not unfold head_of / nargs_of
        # (keyed on the REQUESTED number of arguments, so that only the relevant shape is stated)
        return implies(nargs == 1 and nargs_of(self) == 1, self.is_comb() and head_of(self) == self.fun and
                       not self.fun.is_comb()) and \
            implies(nargs == 2 and nargs_of(self) == 2, self.is_comb() and self.fun.is_comb() and
                    head_of(self) == self.fun.fun and not self.fun.fun.is_comb()) and \
            implies(nargs == 3 and nargs_of(self) == 3, self.is_comb() and self.fun.is_comb() and
                    self.fun.fun.is_comb() and head_of(self) == self.fun.fun.fun and
                    not self.fun.fun.fun.is_comb()) and \
            implies(nargs == 1 and self.is_comb() and not self.fun.is_comb(), nargs_of(self) == 1) and \
            implies(nargs == 2 and self.is_comb() and self.fun.is_comb() and not self.fun.fun.is_comb(),
                    nargs_of(self) == 2)

    def invariant0(self, t, count):
        return self.is_comb() and head_of(t) == head_of(self.fun) and \
            nargs_of(t) + count == nargs_of(self) and count >= 1


@contract("kernel.term.Term.__eq__")
class term_eq:
    params = {'self': 'Term', 'other': 'Term'}
    returns = 'bool'

    def ensures(self, other, result):
        return result == (self == other)

    def decreases(self):
        return self


@contract("kernel.term.Term.is_open.rec")
class is_open_rec:
    params = {'t': 'Term', 'n': 'int'}
    returns = 'bool'

    def ensures(t, n, result):
        return result == loose(t, n)

    def decreases(t, n):
        return t


@contract("kernel.term.Term.is_open")
class is_open:
    params = {'self': 'Term'}
    returns = 'bool'

    def ensures(self, result):
        return result == loose(self, 0)


@contract("kernel.term.Term.incr_boundvars.rec")
class incr_boundvars_rec:
    params = {'t': 'Term', 'lev': 'int'}
    captures = {'inc': 'int'}
    returns = 'Term'

    def ensures(t, lev, inc, result):
        return result == lift(t, lev, inc)

    def decreases(t, lev, inc):
        return t


@contract("kernel.term.Term.incr_boundvars")
class incr_boundvars:
    params = {'self': 'Term', 'inc': 'int'}
    returns = 'Term'

    def ensures(self, inc, result):
        return result == lift(self, 0, inc)


@contract("kernel.term.Term.subst_bound.rec")
class subst_bound_rec:
    params = {'s': 'Term', 'n': 'int'}
    captures = {'t': 'Term', 'is_open': 'bool', 'cache': 'memo'}
    returns = 'Term'
    memo = 'cache'

    def requires(s, n, t, is_open):
        return is_open == loose(t, 0) and n >= 0

    def hint(s, n, t):
        lift_closed(t, 0, n)

    def ensures(s, n, t, result):
        return result == inst_bound(s, n, t)

    def decreases(s, n):
        return s


@contract("kernel.term.Term.subst_bound")
class subst_bound:
    params = {'self': 'Term', 't': 'Term'}
    returns = 'Term'
    raises = ['TermException']

    def ensures(self, t, result):
        return self.is_abs() and result == inst_bound(self.body, 0, t)


@contract("kernel.term.Term.beta_conv")
class beta_conv:
    params = {'self': 'Term'}
    returns = 'Term'
    raises = ['TermException']

    def ensures(self, result):
        return self.is_comb() and self.fun.is_abs() and result == inst_bound(self.fun.body, 0, self.arg)


@contract("kernel.term.Term.occurs_var")
class occurs_var:
    params = {'self': 'Term', 't': 'Term'}
    returns = 'bool'

    def ensures(self, t, result):
        return result == fv(t, self)

    def decreases(self, t):
        return self


@contract("kernel.term.Term.abstract_over.rec")
class abstract_over_rec:
    params = {'s': 'Term', 'n': 'int'}
    captures = {'t': 'Term'}
    returns = 'Term'
    raises = ['TermException']

    def ensures(s, n, t, result):
        return result == abstract(s, n, t) and abstract_ok(s, t)

    def decreases(s, n):
        return s


@contract("kernel.term.Term.abstract_over")
class abstract_over:
    params = {'self': 'Term', 't': 'Term'}
    returns = 'Term'
    raises = ['TermException']

    def ensures(self, t, result):
        return is_variable(t) and result == abstract(self, 0, t) and abstract_ok(self, t)


@contract("kernel.term.Term.get_type.rec")
class get_type_rec:
    params = {'t': 'Term', 'bd_vars': 'seq[Type]'}
    returns = 'Type'
    raises = ['TypeCheckException']

    def ensures(t, bd_vars, result):
        return result == ty_of(t, bd_vars) and weak_wt(t, bd_vars)

    def decreases(t, bd_vars):
        return t


@contract("kernel.term.Term.get_type")
class get_type:
    params = {'self': 'Term'}
    returns = 'Type'
    raises = ['TypeCheckException']

    def ensures(self, result):
        return result == ty_of(self, []) and weak_wt(self, [])


@contract("kernel.term.Term.checked_get_type.rec")
class checked_get_type_rec:
    params = {'t': 'Term', 'bd_vars': 'seq[Type]'}
    returns = 'Type'
    raises = ['TypeCheckException']

    def ensures(t, bd_vars, result):
        return result == ty_of(t, bd_vars) and wt(t, bd_vars)

    def decreases(t, bd_vars):
        return t


@contract("kernel.term.Term.checked_get_type")
class checked_get_type:
    params = {'self': 'Term'}
    returns = 'Type'
    raises = ['TypeCheckException']

    def ensures(self, result):
        return result == ty_of(self, []) and wt(self, [])


@contract("kernel.term.Term.strip_comb")
class strip_comb:
    params = {'self': 'Term'}
    returns = 'tuple[Term,seq[Term]]'
    loop_kinds = {0: {'args': 'seq[Term]'}}

    def hint(self):
        rev_rargs(self)

    def ensures(self, result):
        return result[0] == head_of(self) and result[1] == args_of(self)

    def invariant0(self, t, args):
        return head_of(t) == head_of(self) and args + rargs_of(t) == rargs_of(self)


@contract("kernel.term.Term.args")
class args_prop:
    params = {'self': 'Term'}
    returns = 'seq[Term]'

    def hint(self):
        len_args(self)
        args_small(self)

    def ensures(self, result):
        return result == args_of(self) and len(result) == nargs_of(self)

    def ensures_small(self, result):
        return implies(nargs_of(self) == 1, result == [self.arg] and not self.fun.is_comb()) and \
            implies(nargs_of(self) == 2, result == [self.fun.arg, self.arg] and self.fun.is_comb() and
                    not self.fun.fun.is_comb()) and \
            implies(nargs_of(self) == 3, result == [self.fun.fun.arg, self.fun.arg, self.arg])


@contract("kernel.term.Term.head")
class head:
    params = {'self': 'Term'}
    returns = 'Term'

    def ensures(self, result):
        return result == head_of(self)

    def invariant0(self, t):
        return head_of(t) == head_of(self)
