"""Contracts for kernel/term.py, part 2: type and term instantiation."""
from spec.api import contract, implies, iff, ite
from spec.subst import subst_type_spec, subst_spec
from spec.types import tsubst


@contract("kernel.term.Term.subst_type")
class subst_type:
    params = {'self': 'Term', 'tyinst': 'opt[map[str,Type]]', 'kwargs': 'none'}
    returns = 'Term'
    pure_result = ['subst_type_spec', 'self', 'tyinst']

    def requires(self, tyinst):
        return tyinst is not None

    def decreases(self):
        return self
