"""Contracts for kernel/term.py, part 2: type and term instantiation."""
from spec.api import contract, implies, iff, ite
from spec.subst import subst_type_spec, subst_spec, svars_of, inst_ty
from spec.api import as_set
from spec.types import tsubst


@contract("kernel.term.Term.subst_type")
class subst_type:
    params = {'self': 'Term', 'tyinst': 'opt[map[str,Type]]', 'kwargs': 'none'}
    returns = 'Term'
    pure_result = ['subst_type_spec', 'self', 'tyinst']

    def requires(self, tyinst):
        return tyinst is not None

    def decreases(self):
        return self


@contract("kernel.term.Term.get_svars")
class get_svars:
    params = {'self': 'Term'}
    returns = 'set[Term]'
    trusted = True
    note = '(list of distinct schematic variables, modelled as the set svars_of(self); cross-checked natively)'

    def ensures(self, result):
        return as_set(result) == svars_of(self)


@contract("kernel.term.Term.subst.rec")
class subst_rec:
    params = {'t': 'Term'}
    captures = {'inst': 'Inst', 'cache': 'memo'}
    returns = 'Term'
    memo = 'cache'

    def ensures(t, inst, result):
        return result == subst_spec(t, inst.data, inst.var_inst)

    def decreases(t):
        return t


@contract("kernel.term.Term.subst")
class subst:
    params = {'self': 'Term', 'inst': 'opt[obj[Inst]]', 'kwargs': 'none'}
    returns = 'Term'
    modifies = ['inst']
    raises = ['TermException', 'TypeCheckException']
    ghost = {'k': 'str'}
    loop_modifies = {0: ['inst']}

    def requires(inst):
        return inst is not None

    def ensures_result(self, inst, result):
        # simultaneous replacement of schematic variables / variables in the type-instantiated term,
        # with the FINAL type instantiation
        return result == subst_spec(inst_ty(self, inst.tyinst), inst.data, inst.var_inst)

    def ensures_frame(old_inst, inst):
        return inst.data == old_inst.data and inst.var_inst == old_inst.var_inst and \
            inst.abs_name_inst == old_inst.abs_name_inst

    def ensures_extends(old_inst, inst, k):
        return implies(k in old_inst.tyinst, k in inst.tyinst and inst.tyinst[k] == old_inst.tyinst[k])

    def invariant0(old_inst, inst, k):
        return inst.data == old_inst.data and inst.var_inst == old_inst.var_inst and \
            inst.abs_name_inst == old_inst.abs_name_inst and \
            implies(k in old_inst.tyinst, k in inst.tyinst and inst.tyinst[k] == old_inst.tyinst[k])
