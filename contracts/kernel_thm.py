"""Contracts for kernel/thm.py: each primitive rule refines its rule schema (C01), can_prove (C02)."""
from spec.api import contract, implies, iff, ite, as_set, set_remove, set_union, subset, member, empty_set
from spec.terms import (fv, is_variable, abstract, abstract_ok, ty_of, wt, weak_wt, inst_bound, bool_ty,
                        is_app, is_fun_ty)
from kernel.term import Comb
from spec.subst import subst_type_spec, subst_spec
from spec.thm import mk_implies, mk_eq, mk_lambda, mk_forall, is_imp, is_eq, is_all, lhs_of, rhs_of


@contract("kernel.thm.Thm.__init__")
class thm_init:
    params = {'self': 'Thm', 'prop': 'Term', 'hyps': 'seq[Term]'}
    inline = True


@contract("kernel.thm.Thm.assume")
class assume:
    params = {'A': 'Term'}
    returns = 'Thm'

    def ensures(A, result):
        return result.prop == A and as_set(result.hyps) == as_set((A,))


@contract("kernel.thm.Thm.implies_intr")
class implies_intr:
    params = {'A': 'Term', 'th': 'Thm'}
    returns = 'Thm'

    def ensures(A, th, result):
        return result.prop == mk_implies(A, th.prop) and as_set(result.hyps) == set_remove(th.hyps, A)


@contract("kernel.thm.Thm.implies_elim")
class implies_elim:
    params = {'th1': 'Thm', 'th2': 'Thm'}
    returns = 'Thm'
    raises = ['InvalidDerivationException']

    def ensures(th1, th2, result):
        return is_imp(th1.prop) and lhs_of(th1.prop) == th2.prop and result.prop == rhs_of(th1.prop) and \
            as_set(result.hyps) == set_union(th1.hyps, th2.hyps)


@contract("kernel.thm.Thm.reflexive")
class reflexive:
    params = {'x': 'Term'}
    returns = 'Thm'

    def ensures(x, result):
        return result.prop == mk_eq(ty_of(x, []), x, x) and as_set(result.hyps) == empty_set('Term') and \
            weak_wt(x, [])


@contract("kernel.thm.Thm.symmetric")
class symmetric:
    params = {'th': 'Thm'}
    returns = 'Thm'
    raises = ['InvalidDerivationException']

    def ensures(th, result):
        return is_eq(th.prop) and \
            result.prop == mk_eq(ty_of(rhs_of(th.prop), []), rhs_of(th.prop), lhs_of(th.prop)) and \
            as_set(result.hyps) == as_set(th.hyps)


@contract("kernel.thm.Thm.transitive")
class transitive:
    params = {'th1': 'Thm', 'th2': 'Thm'}
    returns = 'Thm'
    raises = ['InvalidDerivationException']

    def ensures(th1, th2, result):
        return is_eq(th1.prop) and is_eq(th2.prop) and rhs_of(th1.prop) == lhs_of(th2.prop) and \
            result.prop == mk_eq(ty_of(lhs_of(th1.prop), []), lhs_of(th1.prop), rhs_of(th2.prop)) and \
            as_set(result.hyps) == set_union(th1.hyps, th2.hyps)


@contract("kernel.thm.Thm.combination")
class combination:
    params = {'th1': 'Thm', 'th2': 'Thm'}
    returns = 'Thm'
    raises = ['InvalidDerivationException']

    def ensures(th1, th2, result):
        return is_eq(th1.prop) and is_eq(th2.prop) and \
            is_fun_ty(ty_of(lhs_of(th1.prop), [])) and \
            ty_of(lhs_of(th1.prop), []).args[0] == ty_of(lhs_of(th2.prop), []) and \
            result.prop == mk_eq(ty_of(lhs_of(th1.prop), []).args[1],
                                 Comb(lhs_of(th1.prop), lhs_of(th2.prop)),
                                 Comb(rhs_of(th1.prop), rhs_of(th2.prop))) and \
            as_set(result.hyps) == set_union(th1.hyps, th2.hyps)


@contract("kernel.thm.Thm.equal_intr")
class equal_intr:
    params = {'th1': 'Thm', 'th2': 'Thm'}
    returns = 'Thm'
    raises = ['InvalidDerivationException']

    def ensures(th1, th2, result):
        return is_imp(th1.prop) and is_imp(th2.prop) and \
            lhs_of(th1.prop) == rhs_of(th2.prop) and rhs_of(th1.prop) == lhs_of(th2.prop) and \
            result.prop == mk_eq(ty_of(lhs_of(th1.prop), []), lhs_of(th1.prop), rhs_of(th1.prop)) and \
            as_set(result.hyps) == set_union(th1.hyps, th2.hyps)


@contract("kernel.thm.Thm.equal_elim")
class equal_elim:
    params = {'th1': 'Thm', 'th2': 'Thm'}
    returns = 'Thm'
    raises = ['InvalidDerivationException']

    def ensures(th1, th2, result):
        return is_eq(th1.prop) and lhs_of(th1.prop) == th2.prop and result.prop == rhs_of(th1.prop) and \
            as_set(result.hyps) == set_union(th1.hyps, th2.hyps)


@contract("kernel.thm.Thm.beta_conv")
class beta_conv:
    params = {'t': 'Term'}
    returns = 'Thm'
    raises = ['InvalidDerivationException']

    def ensures(t, result):
        return t.is_comb() and t.fun.is_abs() and \
            result.prop == mk_eq(ty_of(t, []), t, inst_bound(t.fun.body, 0, t.arg)) and \
            as_set(result.hyps) == empty_set('Term')


@contract("kernel.thm.Thm.abstraction")
class abstraction:
    params = {'x': 'Term', 'th': 'Thm'}
    returns = 'Thm'
    raises = ['InvalidDerivationException']
    ghost = {'h': 'Term'}

    def ensures_shape(x, th, result):
        return is_variable(x) and is_eq(th.prop) and \
            result.prop == mk_eq(ty_of(mk_lambda(x, lhs_of(th.prop)), []),
                                 mk_lambda(x, lhs_of(th.prop)), mk_lambda(x, rhs_of(th.prop))) and \
            as_set(result.hyps) == as_set(th.hyps) and \
            abstract_ok(lhs_of(th.prop), x) and abstract_ok(rhs_of(th.prop), x)

    def ensures_side_condition(x, th, h, result):
        return implies(member(h, th.hyps), not fv(x, h))


@contract("kernel.thm.Thm.forall_intr")
class forall_intr:
    params = {'x': 'Term', 'th': 'Thm'}
    returns = 'Thm'
    raises = ['InvalidDerivationException']
    ghost = {'h': 'Term'}

    def ensures_shape(x, th, result):
        return is_variable(x) and result.prop == mk_forall(x, th.prop) and \
            as_set(result.hyps) == as_set(th.hyps) and abstract_ok(th.prop, x)

    def ensures_side_condition(x, th, h, result):
        return implies(member(h, th.hyps), not fv(x, h))


@contract("kernel.thm.Thm.forall_elim")
class forall_elim:
    params = {'s': 'Term', 'th': 'Thm'}
    returns = 'Thm'
    raises = ['InvalidDerivationException']

    def ensures(s, th, result):
        return is_all(th.prop) and th.prop.arg.is_abs() and th.prop.arg.var_T == ty_of(s, []) and \
            weak_wt(s, []) and \
            result.prop == inst_bound(th.prop.arg.body, 0, s) and as_set(result.hyps) == as_set(th.hyps)


@contract("kernel.thm.Thm.subst_type")
class subst_type_rule:
    params = {'tyinst': 'map[str,Type]', 'th': 'Thm'}
    returns = 'Thm'
    ghost = {'h': 'Term'}

    def ensures_prop(tyinst, th, result):
        return result.prop == subst_type_spec(th.prop, tyinst)

    def ensures_hyps(tyinst, th, h, result):
        # every instantiated hypothesis is kept (dropping one would be unsound)
        return implies(member(h, th.hyps), member(subst_type_spec(h, tyinst), result.hyps))


@contract("kernel.thm.Thm.can_prove")
class can_prove:
    params = {'self': 'Thm', 'target': 'Thm'}
    returns = 'bool'

    def ensures(self, target, result):
        return result == (self.prop == target.prop and subset(self.hyps, target.hyps))


@contract("kernel.thm.Thm.check_thm_type")
class check_thm_type:
    params = {'self': 'Thm'}
    returns = 'none'
    raises = ['TypeCheckException']
    ghost = {'h': 'Term'}
    loop_kinds = {0: {}}

    def invariant0(_done, h):
        return implies(member(h, _done), wt(h, []) and ty_of(h, []) == bool_ty())

    def ensures_prop(self, result):
        return wt(self.prop, []) and ty_of(self.prop, []) == bool_ty()

    def ensures_hyps(self, h, result):
        return implies(member(h, self.hyps), wt(h, []) and ty_of(h, []) == bool_ty())
