"""Contracts for prover/sat.py (C15)."""
from spec.api import contract, implies, iff, ite, member
from spec.satspec import lit_true, clause_sat, cnf_sat, set_sat, clause_sat_from, cnf_sat_from


@contract("prover.sat.is_solution")
class is_solution:
    params = {'cnf': 'seq[seq[tuple[str,bool]]]', 'assignment': 'map[str,bool]'}
    returns = 'bool'

    def ensures(cnf, assignment, result):
        return result == cnf_sat(cnf, assignment)

    def invariant0(cnf, assignment, _i):
        # every clause before position _i is satisfied
        return cnf_sat(cnf, assignment) == cnf_sat_from(cnf, _i, assignment)

    def invariant1(clause, assignment, satisfied, _i):
        return (not satisfied) and clause_sat(clause, assignment) == clause_sat_from(clause, _i, assignment)


@contract("prover.sat.resolution")
class resolution:
    """Clauses as sets of literals (the result is list(set(..)), its order is arbitrary)."""
    params = {'clause1': 'set[tuple[str,bool]]', 'clause2': 'set[tuple[str,bool]]', 'name': 'str'}
    returns = 'set[tuple[str,bool]]'
    ghost = {'a': 'map[str,bool]', 'v': 'bool'}

    def ensures_sound(clause1, clause2, name, a, v, result):
        # resolution on `name`: if name occurs in clause1 only with sign v and in clause2 only with sign
        # not v, every assignment of name satisfying both clauses satisfies the resolvent
        return implies(not member((name, not v), clause1) and not member((name, v), clause2) and name in a and
                       set_sat(clause1, a) and set_sat(clause2, a),
                       set_sat(result, a))

    def ensures_shape(clause1, clause2, name, a, v, result):
        return implies(member((name, v), result), False)
