"""Contracts for kernel/type.py."""
from spec.api import contract, implies, iff, ite
from spec.types import tsubst


@contract("kernel.type.Type.__eq__")
class type_eq:
    params = {'self': 'Type', 'other': 'opt[Type]'}
    returns = 'bool'

    def ensures(self, other, result):
        return result == (other is not None and self == other)


@contract("kernel.type.Type.subst")
class type_subst:
    params = {'self': 'Type', 'tyinst': 'opt[map[str,Type]]', 'kwargs': 'none'}
    returns = 'Type'
    pure_result = ['tsubst', 'self', 'tyinst']

    def requires(self, tyinst):
        return tyinst is not None

    def decreases(self):
        return self
