"""Contracts for kernel/type.py."""
from spec.api import contract, implies, iff, ite
from spec.types import tsubst


@contract("kernel.type.Type.__eq__")
class type_eq:
    params = {'self': 'Type', 'other': 'opt[Type]'}
    returns = 'bool'

    def ensures(self, other, result):
        return result == (other is not None and self == other)


@contract("kernel.type.Type.subst")
class type_subst:
    params = {'self': 'Type', 'tyinst': 'opt[map[str,Type]]', 'kwargs': 'none'}
    returns = 'Type'
    pure_result = ['tsubst', 'self', 'tyinst']

    def requires(self, tyinst):
        return tyinst is not None

    def decreases(self):
        return self


@contract("kernel.type.Type.match_incr")
class match_incr:
    params = {'self': 'Type', 'T': 'Type', 'tyinst': 'map[str,Type]'}
    returns = 'none'
    modifies = ['tyinst']
    raises = ['TypeMatchException']
    ghost = {'k': 'str'}
    loop_modifies = {0: ['tyinst']}

    def ensures_extends(old_tyinst, tyinst, k):
        # matching only ever adds bindings: existing ones are kept as they are
        return implies(k in old_tyinst, k in tyinst and tyinst[k] == old_tyinst[k])

    def invariant0(old_tyinst, tyinst, k):
        return implies(k in old_tyinst, k in tyinst and tyinst[k] == old_tyinst[k])

    def decreases(self):
        return self
