"""Data model of imperative/expr.py and imperative/com.py for pyvc (C20)."""
import z3

from pyvc.sorts import AdtSpec, Ctor
from pyvc.values import ZV, OutOfReach
from models.holpy import declare_nested


def declare(world):
    S = world.sorts
    ex = AdtSpec('Expr', 'imperative.expr.Expr', [
        Ctor('E_Var', [('name', 'str')], pyclass='imperative.expr.Var'),
        Ctor('E_ArrayElt', [('ident', 'Expr'), ('idx', 'Expr')], pyclass='imperative.expr.ArrayElt'),
        Ctor('E_Field', [('ident', 'Expr'), ('fieldname', 'str')], pyclass='imperative.expr.Field'),
        Ctor('E_ConstI', [('val', 'int')], pyclass='imperative.expr.Const'),
        Ctor('E_ConstB', [('bval', 'bool')], pyclass='imperative.expr.Const'),
        Ctor('E_Op', [('op', 'str'), ('args', ('seq', 'Expr'))], pyclass='imperative.expr.Op'),
        Ctor('E_Fun', [('fname', 'str'), ('args', ('seq', 'Expr'))], pyclass='imperative.expr.Fun'),
        Ctor('E_ITE', [('cond', 'Expr'), ('e1', 'Expr'), ('e2', 'Expr')], pyclass='imperative.expr.ITE'),
        Ctor('E_Forall', [('var', 'Expr'), ('e', 'Expr')], pyclass='imperative.expr.Forall'),
    ], tag_attr=None, ignored=[])
    declare_nested(S, ex)
    S.class_kind.pop(None, None)
    ident = lambda e: (z3.Or(ex.ctor('E_Var').rec(e), ex.ctor('E_ArrayElt').rec(e), ex.ctor('E_Field').rec(e)), 'bool')
    ex.derived['is_ident'] = ident
    world.struct_eq_kinds.add('Expr')      # justified by the __eq__ methods of the Expr classes (checked in C20)

    def mk_const(R, args, kwargs):
        v = args[0]
        if isinstance(v, bool) or (isinstance(v, ZV) and v.kind == 'bool'):
            return ZV(ex.ctor('E_ConstB').con(R.z(v, 'bool')), 'Expr')
        if isinstance(v, int) or (isinstance(v, ZV) and v.kind == 'int'):
            return ZV(ex.ctor('E_ConstI').con(R.z(v, 'int')), 'Expr')
        raise OutOfReach('imperative.expr.Const(%r)' % (v,))
    world.overrides['imperative.expr.Const'] = mk_const


def native_builders():
    from pyvc import native

    def build_expr(ctor, args):
        from imperative import expr
        if ctor in ('E_ConstI', 'E_ConstB'):
            return expr.Const(args[0])
        if ctor in ('E_Op',):
            return expr.Op(args[0], *args[1])
        if ctor in ('E_Fun',):
            return expr.Fun(args[0], *args[1])
        return getattr(expr, ctor[2:])(*args)
    native.ADT_BUILDERS['Expr'] = build_expr


native_builders()


def _install_builtins():
    from pyvc import builtins_ as B
    from pyvc.values import BuiltinV

    def const_int(R, a, k):
        ex = R.S.adts['Expr']
        c = ex.ctor('E_ConstI')
        return ZV(z3.If(c.rec(a[0].e), c.acc['val'](a[0].e), z3.IntVal(0)), 'int')

    def const_bool(R, a, k):
        ex = R.S.adts['Expr']
        c = ex.ctor('E_ConstB')
        return ZV(z3.If(c.rec(a[0].e), c.acc['bval'](a[0].e), z3.BoolVal(False)), 'bool')
    B.BUILTINS['const_int'] = BuiltinV('const_int', const_int)
    B.BUILTINS['const_bool'] = BuiltinV('const_bool', const_bool)


_install_builtins()


def _install_builtins2():
    from pyvc import builtins_ as B
    from pyvc.values import BuiltinV

    def const_is_int(R, a, k):
        ex = R.S.adts['Expr']
        return ZV(ex.ctor('E_ConstI').rec(a[0].e), 'bool')
    B.BUILTINS['const_is_int'] = BuiltinV('const_is_int', const_is_int)


_install_builtins2()
