"""Data model of holpy for pyvc: which classes become algebraic datatypes / records.

The constructor fields are *checked* against the source on every run (builtins_.construct_adt
runs the real __init__ of the leaf class symbolically and reads the attributes it assigns;
`conformance()` below additionally compares the attribute sets syntactically).
Left out of the model (DESIGN 2.2): Abs.var_name (alpha-equivalence is structural equality of the
nameless ADT), `_id` (identity tokens), `_hash_val`, `_size`.
"""
import ast

from pyvc.sorts import AdtSpec, Ctor
from pyvc.world import World


def declare(world):
    S = world.sorts
    # --- kernel.type ---
    ty = AdtSpec('Type', 'kernel.type.Type', [
        Ctor('STVar', [('name', 'str')], tag=0, pyclass='kernel.type.STVar'),
        Ctor('TVar', [('name', 'str')], tag=1, pyclass='kernel.type.TVar'),
        Ctor('TConst', [('name', 'str'), ('args', ('seq', 'Type'))], tag=2, pyclass='kernel.type.TConst'),
    ], tag_attr='ty', ignored=['_hash_val'])
    declare_nested(S, ty)
    # --- kernel.term ---
    tm = AdtSpec('Term', 'kernel.term.Term', [
        Ctor('SVar', [('name', 'str'), ('T', 'Type')], tag=0, pyclass='kernel.term.SVar'),
        Ctor('Var', [('name', 'str'), ('T', 'Type')], tag=1, pyclass='kernel.term.Var'),
        Ctor('Const', [('name', 'str'), ('T', 'Type')], tag=2, pyclass='kernel.term.Const'),
        Ctor('Comb', [('fun', 'Term'), ('arg', 'Term')], tag=3, pyclass='kernel.term.Comb'),
        Ctor('Abs', [('var_T', 'Type'), ('body', 'Term')], tag=4, pyclass='kernel.term.Abs'),
        Ctor('Bound', [('n', 'int')], tag=5, pyclass='kernel.term.Bound'),
    ], tag_attr='ty', ignored=['var_name', '_hash_val', '_size'])
    S.declare_adts([tm])
    # --- records ---
    S.declare_record('Thm', 'kernel.thm.Thm', [('prop', 'Term'), ('hyps', ('set', 'Term'))])
    S.declare_record('ItemID', 'kernel.proof.ItemID', [('id', ('seq', 'int'))])
    S.declare_record('Inst', 'kernel.term.Inst', [('data', ('map', 'str', 'Term')),
                                                  ('tyinst', ('map', 'str', 'Type')),
                                                  ('var_inst', ('map', 'str', 'Term')),
                                                  ('abs_name_inst', ('map', 'str', 'str'))])
    world.struct_eq_kinds.update(['Term', 'Type'])     # justified by the __eq__ contracts (C03-O1)
    install_overrides(world)


def declare_nested(S, spec):
    """Declare an ADT one of whose fields is a sequence of itself (z3 nested datatype)."""
    import z3
    dt = z3.Datatype(spec.name)
    for c in spec.ctors:
        fs = []
        for f, k in c.fields:
            if k == ('seq', spec.name):
                srt = z3.SeqSort(z3.DatatypeSort(spec.name))
            elif k == spec.name:
                srt = dt
            else:
                srt = S.sort_of(k)
            fs.append(('%s_%s_%s' % (spec.name, c.name, f), srt))
        dt.declare(c.name, *fs)
    sort = dt.create()
    spec.sort = sort
    for c in spec.ctors:
        c.con = getattr(sort, c.name)
        c.rec = getattr(sort, 'is_' + c.name)
        for f, k in c.fields:
            c.acc[f] = getattr(sort, '%s_%s_%s' % (spec.name, c.name, f))
        S.class_kind[c.pyclass] = spec.name
    S.adts[spec.name] = spec
    S.class_kind[spec.base_class] = spec.name


def install_overrides(world):
    from pyvc.values import MapV, ObjV, DictV, OutOfReach

    def noop(R, args, kwargs):
        return None
    world.overrides['util.typecheck.checkinstance'] = noop

    # UserDict subclasses: TyInst is a finite map str -> Type; Inst is a record of four maps whose
    # dict interface (in / [] / keys / items) is that of its `data` map.
    def fill(R, m, args, kwargs):
        if args:
            src = args[0]
            if isinstance(src, ObjV) and 'data' in src.fields:
                src = src.fields['data']
            if isinstance(src, MapV):
                m.arr = src.arr
            elif isinstance(src, DictV):
                for k, v in src.items.items():
                    R.map_set(m, k, v)
            else:
                raise OutOfReach('UserDict initialised from %r' % (src,))
        for k, v in kwargs.items():
            R.map_set(m, k, v)
        return m

    def mk_tyinst(R, args, kwargs):
        return fill(R, R.map_empty('str', 'Type'), args, kwargs)

    def mk_inst(R, args, kwargs):
        ci = R.class_info('kernel.term.Inst')
        return ObjV(ci, {'data': fill(R, R.map_empty('str', 'Term'), args, kwargs),
                         'tyinst': R.map_empty('str', 'Type'),
                         'var_inst': R.map_empty('str', 'Term'),
                         'abs_name_inst': R.map_empty('str', 'str')})

    world.overrides['kernel.type.TyInst'] = mk_tyinst
    world.overrides['kernel.term.Inst'] = mk_inst


def conformance(world):
    """Syntactic check that the leaf classes assign exactly the modelled attributes."""
    problems = []
    for adt in world.sorts.adts.values():
        for c in adt.ctors:
            mod, _, cname = c.pyclass.rpartition('.')
            mi = world.repo.module(mod)
            ci = mi.classes.get(cname) if mi else None
            if ci is None or '__init__' not in ci.methods:
                problems.append('%s: class or __init__ missing' % c.pyclass)
                continue
            assigned = set()
            for node in ast.walk(ci.methods['__init__']):
                if isinstance(node, ast.Attribute) and isinstance(node.ctx, ast.Store) and \
                        isinstance(node.value, ast.Name) and node.value.id == 'self':
                    assigned.add(node.attr)
            expect = set(f for f, _ in c.fields) | {adt.tag_attr}
            extra = assigned - expect - adt.ignored - {'_id'}
            missing = expect - assigned
            if extra or missing:
                problems.append('%s: unmodelled attributes %s, missing %s' % (c.pyclass, sorted(extra), sorted(missing)))
    return problems


def id_inj_frame(world):
    """Frame obligation behind the identity model (DESIGN 2.2, C03-O7, "ID-INJ"): in kernel/term.py the
    attribute `_id` of an object is only ever set to id() of that same object.  Checked syntactically:
      (a) every store to `<x>._id` has the form `<x>._id = id(<x>)`;
      (b) a `<x>.__dict__.update(...)` / `<x>.__dict__ = ...` (which copies a foreign `_id`) is followed,
          in the same function, by `<x>._id = id(<x>)`.
    Returns a list of obligation dicts."""
    mi = world.repo.module('kernel.term')
    out = []
    for fn in ast.walk(mi.tree):
        if not isinstance(fn, ast.FunctionDef):
            continue
        resets = set()
        for node in ast.walk(fn):
            if isinstance(node, ast.Assign) and len(node.targets) == 1:
                t = node.targets[0]
                if isinstance(t, ast.Attribute) and t.attr == '_id' and isinstance(t.value, ast.Name):
                    v = node.value
                    ok = isinstance(v, ast.Call) and getattr(v.func, 'id', None) == 'id' and len(v.args) == 1 \
                        and isinstance(v.args[0], ast.Name) and v.args[0].id == t.value.id
                    out.append({'label': 'frame:_id-store:%s:line%d' % (fn.name, node.lineno),
                                'status': 'proved' if ok else 'failed',
                                'detail': ast.unparse(node)})
                    if ok:
                        resets.add((t.value.id, node.lineno))
        for node in ast.walk(fn):
            tgt = None
            if isinstance(node, ast.Call) and isinstance(node.func, ast.Attribute) and node.func.attr == 'update' \
                    and isinstance(node.func.value, ast.Attribute) and node.func.value.attr == '__dict__' \
                    and isinstance(node.func.value.value, ast.Name):
                tgt = node.func.value.value.id
            if isinstance(node, ast.Assign) and any(isinstance(t, ast.Attribute) and t.attr == '__dict__'
                                                    for t in node.targets):
                tgt = [t.value.id for t in node.targets if isinstance(t, ast.Attribute) and
                       isinstance(t.value, ast.Name)][0]
            if tgt is not None:
                ok = any(nm == tgt and ln > node.lineno for nm, ln in resets)
                out.append({'label': 'frame:__dict__-copy:%s:line%d' % (fn.name, node.lineno),
                            'status': 'proved' if ok else 'failed',
                            'detail': ast.unparse(node) + ('' if ok else
                                                          '  -- copies the source object\'s _id and never resets it'),
                            'witness': 'models.holpy.id_collision_witness'})
    if not out:
        out.append({'label': 'frame:_id', 'status': 'failed', 'detail': 'no _id stores found (model out of date)'})
    return out


def id_collision_witness():
    """Native witness for a violated ID-INJ: a parsed/copied term keeps the `_id` of a temporary that is
    garbage collected; a later, different term allocated at the same address compares equal to it."""
    import sys
    if '/repo' not in sys.path:
        sys.path.insert(0, '/repo')
    from kernel.term import Term, Var
    from kernel.type import TConst
    boolT = TConst('bool')
    for attempt in range(200):
        x = Term(Var('a', boolT))          # copy of a temporary: the temporary dies here
        ys = []
        for i in range(50):
            y = Var('b', boolT)
            ys.append(y)
            if y._id == x._id:
                return {'confirmed': (x == y), 'detail': 'x = Term(Var("a", bool)); y = Var("b", bool) allocated '
                        'later at the same address: x == y is %r although the names differ' % (x == y,)}
    return {'confirmed': False, 'detail': 'no address reuse observed in 200 attempts'}


def make_world(repo_root=None):
    w = World(repo_root)
    declare(w)
    return w
