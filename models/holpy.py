"""Data model of holpy for pyvc: which classes become algebraic datatypes / records.

The constructor fields are *checked* against the source on every run (builtins_.construct_adt
runs the real __init__ of the leaf class symbolically and reads the attributes it assigns;
`conformance()` below additionally compares the attribute sets syntactically).
Left out of the model (DESIGN 2.2): Abs.var_name (alpha-equivalence is structural equality of the
nameless ADT), `_id` (identity tokens), `_hash_val`, `_size`.
"""
import ast

from pyvc.sorts import AdtSpec, Ctor
from pyvc.world import World


def declare(world):
    S = world.sorts
    # --- kernel.type ---
    ty = AdtSpec('Type', 'kernel.type.Type', [
        Ctor('STVar', [('name', 'str')], tag=0, pyclass='kernel.type.STVar'),
        Ctor('TVar', [('name', 'str')], tag=1, pyclass='kernel.type.TVar'),
        Ctor('TConst', [('name', 'str'), ('args', ('seq', 'Type'))], tag=2, pyclass='kernel.type.TConst'),
    ], tag_attr='ty', ignored=['_hash_val'])
    declare_nested(S, ty)
    # --- kernel.term ---
    tm = AdtSpec('Term', 'kernel.term.Term', [
        Ctor('SVar', [('name', 'str'), ('T', 'Type')], tag=0, pyclass='kernel.term.SVar'),
        Ctor('Var', [('name', 'str'), ('T', 'Type')], tag=1, pyclass='kernel.term.Var'),
        Ctor('Const', [('name', 'str'), ('T', 'Type')], tag=2, pyclass='kernel.term.Const'),
        Ctor('Comb', [('fun', 'Term'), ('arg', 'Term')], tag=3, pyclass='kernel.term.Comb'),
        Ctor('Abs', [('var_T', 'Type'), ('body', 'Term')], tag=4, pyclass='kernel.term.Abs'),
        Ctor('Bound', [('n', 'int')], tag=5, pyclass='kernel.term.Bound'),
    ], tag_attr='ty', ignored=['var_name', '_hash_val', '_size'])
    S.declare_adts([tm])
    # --- records ---
    S.declare_record('Thm', 'kernel.thm.Thm', [('prop', 'Term'), ('hyps', ('set', 'Term'))])
    S.declare_record('ItemID', 'kernel.proof.ItemID', [('id', ('seq', 'int'))])
    S.declare_record('Inst', 'kernel.term.Inst', [('data', ('map', 'str', 'Term')),
                                                  ('tyinst', ('map', 'str', 'Type')),
                                                  ('var_inst', ('map', 'str', 'Term')),
                                                  ('abs_name_inst', ('map', 'str', 'str'))])
    world.struct_eq_kinds.update(['Term', 'Type'])     # justified by the __eq__ contracts (C03-O1)
    install_overrides(world)


def declare_nested(S, spec):
    """Declare an ADT one of whose fields is a sequence of itself (z3 nested datatype)."""
    import z3
    dt = z3.Datatype(spec.name)
    for c in spec.ctors:
        fs = []
        for f, k in c.fields:
            if k == ('seq', spec.name):
                srt = z3.SeqSort(z3.DatatypeSort(spec.name))
            else:
                srt = S.sort_of(k)
            fs.append(('%s_%s_%s' % (spec.name, c.name, f), srt))
        dt.declare(c.name, *fs)
    sort = dt.create()
    spec.sort = sort
    for c in spec.ctors:
        c.con = getattr(sort, c.name)
        c.rec = getattr(sort, 'is_' + c.name)
        for f, k in c.fields:
            c.acc[f] = getattr(sort, '%s_%s_%s' % (spec.name, c.name, f))
        S.class_kind[c.pyclass] = spec.name
    S.adts[spec.name] = spec
    S.class_kind[spec.base_class] = spec.name


def install_overrides(world):
    from pyvc.values import MapV, ObjV, DictV, OutOfReach

    def noop(R, args, kwargs):
        return None
    world.overrides['util.typecheck.checkinstance'] = noop

    # UserDict subclasses: TyInst is a finite map str -> Type; Inst is a record of four maps whose
    # dict interface (in / [] / keys / items) is that of its `data` map.
    def fill(R, m, args, kwargs):
        if args:
            src = args[0]
            if isinstance(src, ObjV) and 'data' in src.fields:
                src = src.fields['data']
            if isinstance(src, MapV):
                m.arr = src.arr
            elif isinstance(src, DictV):
                for k, v in src.items.items():
                    R.map_set(m, k, v)
            else:
                raise OutOfReach('UserDict initialised from %r' % (src,))
        for k, v in kwargs.items():
            R.map_set(m, k, v)
        return m

    def mk_tyinst(R, args, kwargs):
        return fill(R, R.map_empty('str', 'Type'), args, kwargs)

    def mk_inst(R, args, kwargs):
        ci = R.class_info('kernel.term.Inst')
        return ObjV(ci, {'data': fill(R, R.map_empty('str', 'Term'), args, kwargs),
                         'tyinst': R.map_empty('str', 'Type'),
                         'var_inst': R.map_empty('str', 'Term'),
                         'abs_name_inst': R.map_empty('str', 'str')})

    world.overrides['kernel.type.TyInst'] = mk_tyinst
    world.overrides['kernel.term.Inst'] = mk_inst


def conformance(world):
    """Syntactic check that the leaf classes assign exactly the modelled attributes."""
    problems = []
    for adt in world.sorts.adts.values():
        for c in adt.ctors:
            mod, _, cname = c.pyclass.rpartition('.')
            mi = world.repo.module(mod)
            ci = mi.classes.get(cname) if mi else None
            if ci is None or '__init__' not in ci.methods:
                problems.append('%s: class or __init__ missing' % c.pyclass)
                continue
            assigned = set()
            for node in ast.walk(ci.methods['__init__']):
                if isinstance(node, ast.Attribute) and isinstance(node.ctx, ast.Store) and \
                        isinstance(node.value, ast.Name) and node.value.id == 'self':
                    assigned.add(node.attr)
            expect = set(f for f, _ in c.fields) | {adt.tag_attr}
            extra = assigned - expect - adt.ignored - {'_id'}
            missing = expect - assigned
            if extra or missing:
                problems.append('%s: unmodelled attributes %s, missing %s' % (c.pyclass, sorted(extra), sorted(missing)))
    return problems


def make_world(repo_root=None):
    w = World(repo_root)
    declare(w)
    return w
